//! Verification-build replacement for the `backtrace` crate (only used by
//! grin_util's panic hook). backtrace 0.3.76 does not compile under Kani's
//! pinned nightly (E0659), see DESIGN.md §2.1.
#[derive(Debug, Default, Clone)]
pub struct Backtrace;
impl Backtrace {
	pub fn new() -> Backtrace {
		Backtrace
	}
}
