#!/usr/bin/env python3
"""Regenerate /verif/MANIFEST.json from lib/plan.py (claimed checks) + the static N/A list."""
import json, os, sys
VERIF = os.path.dirname(os.path.dirname(os.path.abspath(__file__)))
sys.path.insert(0, os.path.join(VERIF, "lib"))
import plan

TEXT = {
 "C01": ("Bounded proof (Kani/CBMC) that the real kernel-sum, coinbase-sum, kernel-offset-sum and transaction / body validation code accepts only balanced transactions and consults every signature and range proof (coinbase-flagged outputs included), with libsecp256k1 replaced by a homomorphic image of the commitment group and oracle bits for signatures / range proofs.",
         "partial: chain histories (pipe.rs, txhashset) are not claimed; Block::validate is decided for the smallest block only (thorough tier); known finding: sum_kernel_offsets ignores the negative offsets when no positive one is non-zero (witness obligation, KNOWN-FINDING); model group Z_2^16^2; trusted: rustc->Kani->CBMC->CaDiCaL and the stubs listed in evidence"),
 "C04": ("Bounded proof (Kani/CBMC) that the retarget functions are total, floored, damped/clamped and that the version schedule / graph weight arithmetic, the DMA/WTEMA dispatch and the choice of the PoW scaling factor follow the rules, for fully symbolic difficulty windows.",
         "partial: pipe::validate_header sequencing, DifficultyIter (LMDB), PoW and header-MMR root not claimed; bounds on window values stated in evidence"),
 "C05": ("Bounded proof (Kani/CBMC): all five cycle verifiers (Cuckatoo, Cuckaroo, Cuckarood, Cuckaroom, Cuckarooz) agree with oracles written from each variant's graph definition for every nonce tuple and every assignment of endpoints (proof size 2 quick, 4 thorough); PoW variant selection; proof (de)serialisation bit-exact, in-range, canonical padding.",
         "partial: proof sizes above 4 and siphash itself are not decided; the graph-seeding hash is replaced by an arbitrary function; per-query edge_bits and proof size are concrete"),
 "C07": ("Bounded proof (Kani/CBMC): MMR position arithmetic equals the defining append rule; PMMR construction (sizes, node hashes, root, validate) over VecBackend equals the definition; a proof exists and verifies for every leaf; MerkleProof::verify on an arbitrary proof accepts exactly when the defining fold over the whole path yields the root.",
         "bounds: position widths and MMR sizes (2-3 leaves quick) per obligation in evidence; soundness against hash collisions is not claimed (the fold obligation states acceptance exactly; the ideal-hash attempts never finished)"),
 "C08": ("Bounded proof (Kani/CBMC) by induction on the prune list's operations: from ANY valid prune-list state (maximal pruned subtrees + defining prefix sums, symbolic) every query equals the definition, and one real append / init_caches re-establishes such a state for the enlarged pruned set.",
         "partial: prune-list arithmetic over a correct bitmap (CRoaring replaced by a 64-value bitset); universe 31 positions quick / 63 thorough, at most 3 (4) entries in the pre-state; the file layer, PMMRBackend index translation, reopen and chain-level compaction are not claimed"),
 "C20": ("Bounded proof (Kani/CBMC) of the recoverability encoding that is left in Rust: key id <-> derivation path round trips, and for both proof-builder generations the rewind message written for (key id, switch) is read back as exactly that for the wallet's own commitment while any other message byte, amount, length or wallet recovers nothing (model keychain with an injective commit); BlindingFactor::split is the group difference.",
         "thin partial claim: everything executed inside libsecp256k1-zkp (BIP32 derivation, commitments, bulletproofs, aggsig, blind sums) and build::transaction are not claimed"),
 "C10": ("Bounded proof (Kani/CBMC) of value round trip, canonical bytes (decode then re-encode reproduces the consumed bytes) and version-independent hashes for the fixed-size consensus objects.",
         "partial: fixed-size consensus / wire objects, the sorted-and-unique rule of body lists, the writer-side order of inputs at v2 / v3 and short-id-only compact block bodies; full transactions, blocks, headers and segments are thorough-tier attempts"),
 "C11": ("Bounded proof (Kani/CBMC): listed decoders and Segment::validate never panic / over-allocate / spin on any byte string or decoded-shape value of the listed sizes.",
         "buffer lengths and shapes enumerated (concrete per query), contents symbolic; allocation ghost stub; dev-profile overflow checks"),
 "C12": ("Bounded proof (Kani/CBMC): cut_through returns exactly the union minus the matched spend pairs (multiset equation), sorted, with CutThrough error iff a duplicate survives; TransactionBody::validate_read refuses a body that still contains a spend of its own output (and, thorough, unsorted kernels / repeated NRD excesses).",
         "partial: cut_through instantiated with a cheap-Ord element type; aggregate / deaggregate / hydrate_from over the hash-ordered types are attempt-tier obligations that never finished and are not claimed"),
 "C13": ("Bounded proof (Kani/CBMC) of the stateless height rules: absolute kernel lock heights in blocks, NRD relative-height range, body lock_height.",
         "partial: coinbase maturity, NRD index and every fork/rewind clause need LMDB/file state and are not claimed"),
 "C14": ("Bounded proof (Kani/CBMC) of the arithmetic the pool's fee gate compares (weight, fee, fee shift, shifted fee, accept fee) on real transactions with symbolic fee fields and configuration; thorough tier: Pool::add_to_pool on an empty pool stores an entry only if the aggregate validated, the chain's utxo check passed and the kernel sums balance.",
         "thin partial claim: TransactionPool::add_to_pool sequencing is an attempt-tier obligation that never finished; pool histories, eviction and mining selection are not claimed"),
 "C16": ("Bounded proof (Kani/CBMC): segment identifier arithmetic equals the closed forms of the MMR definition; a segment exists iff its first leaf is inside the MMR and what from_pmmr produces validates against the root (also under a merged root); a fully spent segment's ancestor hash is accepted iff no leaf under the ancestor is unspent in the bitmap.",
         "partial: MMRs of 3 leaves (completeness) / 8 leaves (pruned ancestor) quick; the corruption-is-rejected clause is only a thorough-tier attempt under an ideal-hash stub; segmenter/desegmenter end-to-end not claimed"),
 "C19": ("Bounded proof (Kani/CBMC) of frame-header limits for every 11-byte header and chain type, writer/reader agreement on the frame header, and typed message sequences (known, unknown, known) written by the real writer and read back through read_message over a fragmenting reader.",
         "partial: the streaming Codec state machine is an attempt-tier obligation; attachments, header batches, handshake and timeouts are not claimed"),
}
NA = {
 "C02": "every mechanism reads LMDB (FFI) and the file-backed output PMMR; Kani cannot execute either and stubbing them wholesale would check a model, not grin",
 "C03": "process_block over LMDB/files/orphan pool with locks; the only pure piece is a one-line comparison",
 "C06": "the state that must stay unchanged is the LMDB / file state itself",
 "C09": "requires process death between real fsync/rename/LMDB commits and a restart",
 "C17": "Kani does not model thread interleavings",
 "C18": "semantics live in LMDB behind heed (FFI), plus threads and f32",
 "C15": "1024-bit chunks x MMR hashing: first form measured not to finish (40 min); not yet retried in the reduced form",
}

# properties that have obligations in the plan for experiments but are NOT claimed (nothing finishes yet)
HOOK_COMMITS = ["80d9b7d18", "90571269e", "3ee14a2f0"]
EXPERIMENTAL = {"C15"}


def main():
    m = {
        "version": 1,
        "setup_cmd": "bin/setup",
        "hooks": {"guard": "cfg(any(kani, grin_verif))",
                  "enable": "cfg(kani) is set by `cargo kani` itself (the checks' Kani builds see the hooks); native counterexample replays are built with RUSTFLAGS='--cfg grin_verif'",
                  "baseline_off_cmd": "cd /repo && cargo test --workspace --no-fail-fast --offline",
                  "source_commits": HOOK_COMMITS, "add_only": True},
        "engines": [{"name": "kani", "path": "/verif/harness/vh", "serves_properties": sorted(k for k in plan.PLAN.keys() if k not in EXPERIMENTAL),
                     "kind_free_text": "Kani 0.68 proof harnesses (CBMC 6.11 + CaDiCaL) over the real grin crates as path dependencies on /repo; bin/check -> lib/runner.py drives one cargo-kani query per obligation, extracts counterexamples from the CBMC trace and replays them natively"}],
        "checks": [],
        "notes": "see DESIGN.md; exit 2 of a check means inconclusive (timeout / OOM / harness does not compile / non-reproducing counterexample), never a violation",
        "not_applicable": [],
    }
    for pid in sorted(plan.PLAN.keys()):
        if pid in EXPERIMENTAL:
            continue
        text, note = TEXT[pid]
        m["checks"].append({
            "property_id": pid,
            "quick_cmd": "bin/check %s --tier quick" % pid,
            "thorough_cmd": "bin/check %s --tier thorough" % pid,
            "evidence_file": "/verif/evidence/%s.json" % pid,
            "replay_cmd_template": "cat {path}",
            "engine": "kani",
            "level_claimed": {"category": "proof", "text": text, "design_ref": "DESIGN.md §6 " + pid},
            "level_note": note,
            "technique": "SMT/SAT-based bounded model checking of the compiled Rust (Kani -> CBMC -> CaDiCaL) with symbolic inputs; counterexamples replayed natively",
        })
    for pid in ["C%02d" % i for i in range(1, 21)]:
        if pid not in plan.PLAN or pid in EXPERIMENTAL:
            m["not_applicable"].append({"property_id": pid, "reason": NA.get(pid, "not claimed")})
    json.dump(m, open(os.path.join(VERIF, "MANIFEST.json"), "w"), indent=1)
    print("checks:", [c["property_id"] for c in m["checks"]])
    print("n/a:", [c["property_id"] for c in m["not_applicable"]])

if __name__ == "__main__":
    main()
