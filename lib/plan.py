"""Obligations per property: which harness, which bounds, which tier.  (DESIGN.md §6)"""

MAX_PAR = 10
# tiers: quick (<= 900 s wall per property), thorough (1 h cap per obligation; only obligations that
# were measured to finish), attempt (obligations that have never finished; `--tier attempt` runs
# them for experiments, no registered command does)
TIER_CAPS = {
    "attempt": {"cap_s": 7200, "mem_gb": 40},
    # a quick check must finish well inside 900 s wall (vp check stops it there): every quick
    # obligation is one that was measured at <= ~400 s standalone; anything slower is thorough-only
    "quick": {"cap_s": 660, "mem_gb": 20},
    "thorough": {"cap_s": 3600, "mem_gb": 32},
}

BASE_STUBS = [
    "E1 alloc::fmt::format -> empty String (message text is never observed)",
    "E2 global::{get_chain_type,is_nrd_enabled,get_accept_fee_base,get_future_time_limit} -> harness statics (configuration is an explicit input)",
    "E11 parking_lot RawMutex/RawRwLock lock/unlock -> no-ops (single-threaded symbolic execution)",
    "E13 ser::map_io_err / From<io::Error> for ser::Error -> same value, io::Error forgotten instead of dropped",
]


def ob(h, tiers="qt", unwind=8, claim="", bounds="", est=60, **kw):
    d = {"harness": h, "tiers": ["quick"] * ("q" in tiers) + ["thorough"] * ("t" in tiers) + ["attempt"] * ("x" in tiers),
         "unwind": unwind, "claim": claim, "bounds": bounds, "est_s": est}
    d.update(kw)
    if "ATTEMPT" in claim or "ATTEMPT" in bounds:
        d["tiers"] = ["attempt"]
    return d


def c07():
    obs = []
    W = "positions/sizes < 2^%d"
    for name, claim, q, t in [
        ("leaf_positions_follow_append_rule", "insertion_to_pmmr_index obeys pos(0)=0, pos(n+1)=pos(n)+1+tz(n+1) (append rule, base+step => every n)", 62, 62),
        ("height_by_append_rule", "height/is_leaf/leaf index/n_leaves/round_up agree with the append rule for every position", 16, 24),
        ("family_matches_tree", "family/is_left_sibling agree with the explicit tree (right child iff next position is the parent)", 14, 24),
        ("family_is_symmetric", "family(sibling) == (parent, self)", 14, 24),
        ("subtree_ranges", "bintree_leftmost/rightmost/range and leaf counts of a subtree", 12, 20),
        ("peaks_decompose_size", "[ATTEMPT: 660 s not enough even at 8 bits] peaks() = strictly shrinking perfect trees covering exactly the mmr; empty iff size invalid", 8, 16),
        ("family_branch_is_iterated_family", "family_branch entries are iterated family() inside the mmr", 10, 16),
        ("family_branch_is_maximal", "family_branch stops only when the next parent leaves the mmr", 10, 16),
    ]:
        obs.append(ob("c07a::" + name, "t" if name == "peaks_decompose_size" else "q", 66, claim, W % q, env={"VH_LIMBITS": q}, tag="_w%d" % q, est=200))
        if t != q:
            obs.append(ob("c07a::" + name, "t", 66, claim, W % t, env={"VH_LIMBITS": t}, tag="_w%d" % t, est=1500))
    HL = {"memcmp": 40, "compress": 66}
    for n, tiers in [(2, "qt"), (3, "qt"), (4, "t"), (5, "t")]:
        obs.append(ob("c07b::construction_equals_definition", tiers, 8,
                      "PMMR::push/root/get_hash/validate over VecBackend equal the defining construction (leaf hash over position+data, parent over position+children, peaks bagged right to left with the size)",
                      "%d leaves with symbolic 32-bit contents; every position checked" % n,
                      env={"VH_NLEAF": n}, tag="_n%d" % n, est=100 * n, loops=HL))
        obs.append(ob("c07b::honest_proofs_verify", tiers, 8,
                      "merkle_proof for every leaf exists and verifies against the root for that element at that position; no proof for a parent position",
                      "%d leaves with symbolic contents, every leaf" % n,
                      env={"VH_NLEAF": n}, tag="_n%d" % n, est=120 * n, loops=HL))
        obs.append(ob("c07b::accepted_proofs_consume_their_path", "t", 8,
                      "shortened / lengthened paths: whenever a proof with m path hashes verifies, exactly m+1 hashes were computed (no early acceptance, no skipped element) - needs no hash assumption  [thorough-tier ATTEMPT: 2 leaves did not finish in 660 s]",
                      "%d leaves, every leaf, honest proof with an arbitrary hash appended / prepended or an end removed" % n,
                      env={"VH_NLEAF": n}, tag="_n%d" % n, est=150 * n, loops=HL, replay="model"))
    def msize(n):
        return 2 * n - bin(n).count("1")
    FOLD = ("MerkleProof::verify on an ARBITRARY proof accepts exactly when the defining fold over the WHOLE path (element hash at its position, one sibling per level, "
            "bagged right peaks, left peaks) yields the root: no early acceptance, no skipped or reordered hash, right hash indices; altered / shortened / lengthened "
            "proofs are then rejected unless the hash collides")
    for n, plens, tiers in [(3, (0, 1, 2, 3), "qt"), (4, (2, 3), "t"), (5, (1, 3, 4), "t"), (7, (2, 4, 5), "t")]:
        for pl_ in plens:
            for pos in range(msize(n)):
                obs.append(ob("c07b::verify_is_the_defining_fold", tiers, 8, FOLD,
                              "%d leaves, position %d, path of %d symbolic hashes, symbolic element and root" % (n, pos, pl_),
                              env={"VH_NLEAF": n, "VH_PLEN": pl_, "VH_POS": pos}, tag="_n%d_p%d_at%d" % (n, pl_, pos), est=100, loops=HL,
                              recurse={"MerkleProof::verify": pl_ + 3, "MerkleProof::verify_consume": pl_ + 3}))
    for n, leaf, kind in [(2, 1, 1), (2, 1, 2), (2, 1, 3), (3, 2, 1), (3, 2, 3)]:
        obs.append(ob("c07b::merkle_proof_sound", "t", 8,
                      "under the ideal hash: other element (kind 1) / other position (2) / altered path hash (3) never verify  [thorough-tier ATTEMPT: did not finish in 30 min at 3 leaves]",
                      "%d leaves, leaf %d, corruption kind %d" % (n, leaf, kind),
                      env={"VH_NLEAF": n, "VH_LEAF": leaf, "VH_KIND": kind}, tag="_n%d_l%d_k%d" % (n, leaf, kind), est=3000, loops=HL, replay="model"))
    return {
        "obligations": obs,
        "stubs": BASE_STUBS + ["E4a Blake2b::compress -> cheap deterministic mixer + call counter (completeness and path-consumption harnesses)",
                               "E4b Blake2b::compress -> ideal hash in Ackermann form (thorough soundness attempts): collision freedom is an explicit assumption",
                               "E3 RandomState::new -> fixed keys (VecBackend holds an always-empty HashSet)"],
        "explanation": "Bounded proof by Kani/CBMC over the compiled grin_core::core::pmmr functions; inputs are symbolic u64.",
        "bounds": "see per-obligation bounds; all loops fully unwound (unwind 66 >= 64-bit descent + 1), unwinding assertions on",
        "outside": "PMMRBackend-backed MMRs (C08); soundness against substituted element / position / altered hash is a thorough-tier attempt only",
        "assumptions": [],
    }


BYTE_LOOPS = {"memcmp.0": 40, "memcpy.0": 40}


def c11():
    obs = []
    for h, claim, b, u in [
        ("merkle_proof_read_16", "MerkleProof::read on any 16 bytes (mmr_size, path_len): no panic, bounded allocation", "L=16, every byte symbolic, protocol version in {1,2,3,1000}", 6),
        ("merkle_proof_read_48", "MerkleProof::read on any 48 bytes (header + one hash)", "L=48", 6),
        ("segment_proof_read_8", "SegmentProof::read on any 8 bytes", "L=8", 6),
        ("segment_proof_read_40", "SegmentProof::read on any 40 bytes", "L=40", 6),
        ("segment_identifier_read_9", "SegmentIdentifier::read on any 9 bytes", "L=9", 4),
        ("merkle_proof_from_hex_ascii_32", "[ATTEMPT: std's TwoWaySearcher does not finish] MerkleProof::from_hex on any 32 ASCII characters: no panic, bounded allocation", "32 symbolic ASCII bytes", 36),
        ("util_from_hex_utf8_4", "[ATTEMPT: std's TwoWaySearcher does not finish] util::from_hex on any valid UTF-8 string of 4 bytes: no panic", "4 symbolic bytes, assumed valid UTF-8", 8),
    ]:
        obs.append(ob("c11::" + h, "t" if "from_hex" in h else "qt", u, claim, b, cap_s=3600 if "from_hex" in h else None,
                      allow_unsat=["some input is refused"] if h == "segment_identifier_read_9" else []))
        if obs[-1]["cap_s"] is None:
            del obs[-1]["cap_s"]
    for h, L, u, extra in [
        ("txkernel_read_114", 114, 8, {}),
        ("txkernel_read_60", 60, 8, {}),
        ("rangeproof_read_24", 24, 8, {}),
        ("transaction_body_read_64", 64, 8, {"tiers": "t", "cap_s": 3600, "est": 1500}),
        ("pow_proof_read_edge_bits_sweep", 72, 12, {"tiers": "t", "cap_s": 3600, "est": 1500}),
        ("p2p_hand_read_96", 96, 12, {"tiers": "t", "cap_s": 3600, "est": 1500}),
        ("p2p_shake_read_64", 64, 8, {"tiers": "t", "cap_s": 3600, "est": 600}),
        ("p2p_peer_addrs_read_48", 48, 12, {"tiers": "t", "cap_s": 3600, "est": 1500}),
        ("p2p_locator_read_40", 40, 8, {}),
        ("p2p_peer_error_read_24", 24, 8, {"tiers": "t", "cap_s": 3600, "est": 600}),
        ("p2p_ping_read_16", 16, 6, {}),
        ("p2p_ban_reason_read_4", 4, 6, {}),
        ("p2p_segment_request_read_41", 41, 6, {}),
        ("p2p_txhashset_request_read_40", 40, 6, {}),
        ("bitmap_segment_read_48", 48, 8, {"tiers": "t", "cap_s": 3600, "est": 1500}),
    ]:
        o = ob("c11::" + h, extra.get("tiers", "qt"), u, "decoder on any %d bytes: no panic, bounded allocation, terminates" % L,
               "L=%d, every byte symbolic (count/length fields at full width), protocol version in {1,2,3,1000}" % L,
               loops={"memcpy": L + 4, "memcmp": 70, "copy_from_slice": L + 4, "read_exact": L + 4, "utf8": L + 4, "memset": L + 40, "read_empty_bytes": 18},
               est=extra.get("est", 90), allow_unsat=["some input decodes", "some input is refused"])
        if "cap_s" in extra:
            o["cap_s"] = extra["cap_s"]
        obs.append(o)
    for case, what, tiers in [(3, "MAX_PROOF_SIZE", "qt"), (4, "MAX_PROOF_SIZE+1", "qt"), (5, "MAX_PROOF_SIZE+8", "t"), (2, "MAX_PROOF_SIZE-1", "t"), (6, "100000", "t"), (7, "100001", "t"), (0, "0", "t")]:
        obs.append(ob("c11::rangeproof_read_length_boundaries", tiers, 12, "RangeProof::read with its length prefix at a boundary value: no panic, decoded length within the proof buffer",
                      "length prefix = %s, following %d bytes symbolic" % (what, 683), env={"VH_CASE": case}, tag="_case%d" % case, est=200, cap_s=1200,
                      loops={"memcpy": 700, "memcmp": 70, "memset": 740, "copy_from_slice": 700}, allow_unsat=["a maximal proof decodes"]))
    for h, b in [
        ("segment_validate_h0_s1_empty", "height 0, mmr_size 1, idx 0..=4, 0 hashes/0 leaves/0 proof hashes"),
        ("segment_validate_h0_s4", "height 0, mmr_size 4, idx 0..=4, 0/1/2"),
        ("segment_validate_h1_s4_empty", "height 1, mmr_size 4, idx 0..=4, 0/0/0"),
        ("segment_validate_h1_s4", "height 1, mmr_size 4, idx 0..=4, 0/2/1"),
        ("segment_validate_h1_s7", "height 1, mmr_size 7, idx 0..=4, 1/2/1"),
        ("segment_validate_h2_s10_empty", "height 2, mmr_size 10, idx 0..=4, 0/0/0"),
        ("segment_validate_h2_s11", "height 2, mmr_size 11, idx 0..=4, 1/3/1"),
    ]:
        obs.append(ob("c11::" + h, "t" if h in ("segment_validate_h2_s11", "segment_validate_h1_s7") else "qt", 20,
                      "Segment<OutputIdentifier>::validate on a decoded-shape segment with arbitrary contents never panics",
                      b, unwindset={"memcmp.0": 40}, est=300))
    return {
        "obligations": obs,
        "stubs": BASE_STUBS + [
            "E12 alloc::alloc::{alloc,alloc_zeroed,realloc} -> forward to System after recording the largest request (over-allocation ghost)",
            "E4a Blake2b::compress -> cheap deterministic mixer (hash values are irrelevant to the no-panic clause)"],
        "explanation": "Bounded proof: each decoder is run by CBMC on a fully symbolic byte buffer of a concrete length; Kani's built-in checks (panic, bounds, unwrap, overflow, unreachable) are the no-panic clause, the allocation ghost the no-over-allocation clause, unwinding assertions the no-hang clause.",
        "bounds": "buffer lengths and segment shapes are concrete per query and listed per obligation; all contents, counts and positions inside them are symbolic at full width",
        "outside": "buffers longer than the listed lengths; zip extraction; JSON decoders; paths that continue after a debug-only arithmetic wrap (Kani assumes each overflow check after asserting it)",
        "assumptions": ["arithmetic-overflow checks are those of the dev profile; an overflow-only failure is replayed in release and reported only if it panics, hangs or over-allocates there"],
    }


def c04():
    obs = []
    CTN = {0: "AutomatedTesting", 1: "UserTesting", 2: "Testnet", 3: "Mainnet"}
    # DMA retarget, full window
    for ct, tiers in [(3, "t"), (0, "t"), (2, "t"), (1, "t")]:
        obs.append(ob("c04::dma_total_floor", tiers, 64,
                      "next_dma_difficulty is total (no overflow/underflow/div-by-zero/index panic), >= MIN_DMA_DIFFICULTY, scaling >= MIN_AR_SCALE",
                      "chain %s; full 61-header window: every timestamp (strictly decreasing, gaps < 2^20 s), difficulty in [1,2^48), scaling < 2^24, secondary flag symbolic; height < 2^40" % CTN[ct],
                      env={"VH_CT": ct, "VH_WIN": 61}, tag="_ct%d_w61" % ct, est=600, cap_s=3600, mem_est_gb=14))
    # short windows (just after genesis): padding path
    for win, tiers in [(1, "qt"), (2, "t"), (7, "t"), (30, "t"), (60, "t")]:
        obs.append(ob("c04::dma_total_floor", tiers, 64,
                      "same, window shorter than required (pre-genesis padding never underflows)",
                      "chain Mainnet; %d real headers" % win,
                      env={"VH_CT": 3, "VH_WIN": win}, tag="_ct3_w%d" % win, est=400, cap_s=700 if "q" in tiers else 3600, mem_est_gb=12))
    for win, tiers in [(1, "qt"), (2, "t"), (3, "t"), (30, "t"), (61, "t")]:
        obs.append(ob("c04::pre_genesis_padding", tiers, 64, "difficulty_data_to_vector: a short window is completed with simulated pre-genesis headers carrying the most recent header's difficulty, walking back from the oldest header by the most recent interval (saturating); result oldest-first; real headers kept",
                      "%d real headers with symbolic timestamps (strictly decreasing) and difficulties" % win, env={"VH_WIN": win}, tag="_w%d" % win, est=300, mem_est_gb=6, allow_unsat=["newest and oldest difficulty differ"] if win == 1 else []))
    for ct in (3, 0, 2, 1):
        t = "qt" if ct in (3, 0) else "t"
        obs.append(ob("c04::wtema_total_floor", t, 4, "next_wtema_difficulty total, >= min_wtema, scaling 0",
                      "chain %s; gap in [1,2^30), difficulty in [1,2^50), all other fields symbolic" % CTN[ct],
                      env={"VH_CT": ct}, tag="_ct%d" % ct, est=10))

    obs.append(ob("c04::next_difficulty_dispatch", "qt", 4, "next_difficulty selects DMA below the first version-5 height and WTEMA from it on (the two retarget functions replaced by tagging stubs)",
                  "all four chain types, heights below the u16 wrap of the era counter (2^32 production, 196602 testing)", est=30, replay="model"))
    obs.append(ob("c04::wtema_direction", "t", 4, "slower-than-target block never raises difficulty, faster never lowers it",
                  "Mainnet; gap < 2^16, difficulty < 2^32 (64-bit symbolic division)", env={"VH_CT": 3}, est=1200, cap_s=3600))
    for f in (2, 3, 13):
        obs.append(ob("c04::damp_clamp_f%d" % f, "q", 4, "damp between actual and goal and moves at most 1/f; clamp within [goal/f, goal*f], identity inside",
                      "factor %d; actual, goal < 2^%d" % (f, 16 if f == 13 else 24), est=120, env={"VH_DCW": 16 if f == 13 else 24}))
        obs.append(ob("c04::damp_clamp_f%d" % f, "t", 4, "damp between actual and goal and moves at most 1/f; clamp within [goal/f, goal*f], identity inside",
                      "factor %d; actual, goal < 2^40" % f, est=1200, env={"VH_DCW": 40}))
    obs.append(ob("c04::header_version_u16_wrap", "qt", 4, "WITNESS of the recorded finding: header_version leaves 1..=5 once the era counter wraps in u16",
                  "every u64 height, all chain types", est=30, expect_fail=True))
    obs.append(ob("c04::header_version_schedule", "qt", 4, "header_version monotone, in 1..=5, equals the hard-fork schedule; valid_header_version accepts exactly it",
                  "heights < 2^32 (Mainnet/Testnet) / < 196602 (testing chains), all four chain types, every candidate version", est=30))
    obs.append(ob("c04::graph_weight_no_overflow", "qt", 4, "graph_weight total for edge_bits in [base,63], C31 phase-out",
                  "every height, all chain types", est=30))
    obs.append(ob("c04::pow_primary_secondary_predicates", "qt", 4, "ProofOfWork::is_secondary <=> edge_bits == 29; is_primary <=> edge_bits != 29 and >= the chain's minimum", "every edge_bits byte, all chain types", est=20))
    obs.append(ob("c04::pow_difficulty_scaling_dispatch", "qt", 4, "ProofOfWork::to_difficulty scales the secondary PoW (edge_bits 29) by the header's secondary_scaling and every other size by graph_weight(height, edge_bits); to_unscaled_difficulty uses factor 1 (Proof::scaled_difficulty replaced by a tagging stub that returns its factor)",
                  "every height, edge_bits <= 63, every scaling, all chain types", est=30, replay="model"))
    obs.append(ob("c04::secondary_pow_ratio_schedule", "qt", 4, "secondary ratio <= 90, monotone, zero after two years", "every height", est=30))
    return {
        "obligations": obs,
        "stubs": BASE_STUBS,
        "explanation": "Bounded proof over consensus::{next_difficulty,next_dma_difficulty,next_wtema_difficulty,secondary_pow_scaling,damp,clamp,header_version,graph_weight,secondary_pow_ratio} and global::difficulty_data_to_vector with a fully symbolic difficulty window.",
        "bounds": "window contents symbolic within the ranges listed per obligation; window length concrete per query",
        "outside": "pipe::validate_header sequencing and DifficultyIter (LMDB); PoW verification (C05); header MMR root; exact-quotient bound of the retarget (needs symbolic 64-bit division by a symbolic divisor)",
        "assumptions": ["window scalings < 2^24: above ~2^26 the u32 cast in secondary_pow_scaling truncates (recorded observation, consensus code)"],
    }


def c05():
    obs = []
    # family D: proof serialisation, one query per (chain type -> proof size, edge_bits)
    for ct, eb, tiers in [(0, 10, "qt"), (0, 29, "qt"), (0, 31, "qt"), (0, 63, "qt"), (0, 1, "t"), (0, 17, "t"), (0, 32, "t"), (0, 48, "t"), (3, 2, "qt"), (3, 3, "qt"), (3, 29, "t"), (3, 31, "t")]:
        n = 8 if ct == 0 else 42
        b = "proof size %d, edge_bits %d" % (n, eb)
        e = {"VH_CT": ct, "VH_EB": eb}
        tag = "_n%d_eb%d" % (n, eb)
        u = n + 3
        L = {"memcmp": 400, "memcpy": 400}
        att = "[ATTEMPT: exceeds 20 GB] " if (n == 42 and eb > 3) else ""
        obs.append(ob("c05::proof_roundtrip", tiers, u, att + "Proof: read(write(p)) == p bit-exactly for every in-range nonce tuple", b + ", all nonces < 2^edge_bits", env=e, tag=tag, est=60 if n == 8 else 900, loops=L, cap_s=900 if "q" in tiers else 3600))
        obs.append(ob("c05::proof_decode_valid", tiers, u, att + "Proof::read on any bytes of the exact length: never panics; Ok => exactly n nonces, each < 2^edge_bits, padding bits zero (refused, not normalised)", b + ", all byte strings", env=e, tag=tag, est=120 if n == 8 else 1500, loops=L, cap_s=900 if "q" in tiers else 3600,
                      allow_unsat=["refused (non-zero padding)"] if (n * eb) % 8 == 0 else []))
        if n == 8:
            obs.append(ob("c05::proof_decode_injective", tiers, u, "two accepted encodings of equal proofs are equal byte strings (canonical form)", b + ", two symbolic buffers", env=e, tag=tag, est=240, loops=L, cap_s=900 if "q" in tiers else 3600))
    for n, tiers, est in [(2, "qt", 120), (4, "t", 1500)]:
        obs.append(ob("c05a::cuckatoo_verify_matches_definition", tiers, 2 * n + 3,
                      "CuckatooContext::verify == Ok  <=>  right count, strictly ascending, in range, and the edges form one simple cycle (oracle from the graph definition), for EVERY assignment of endpoints to the nonces",
                      "proof size %d, edge_bits 10, nonces full width, endpoints arbitrary (siphash replaced by an arbitrary function)" % n,
                      env={"VH_N": n}, tag="_n%d" % n, est=est, replay="model", mem_est_gb=14 if n > 2 else 4))
    for n, tiers, est in [(2, "qt", 300), (4, "t", 1500)]:
        obs.append(ob("c05a::cuckaroo_verify_matches_definition", tiers, 2 * n + 3,
                      "CuckarooContext::verify == Ok  <=>  right count, strictly ascending, in range, and the edges form one simple cycle (bipartite, node equality), for EVERY assignment of endpoints",
                      "proof size %d, edge_bits 10, nonces full width, endpoints arbitrary (siphash_block replaced by an arbitrary function)" % n,
                      env={"VH_N": n}, tag="_n%d" % n, est=est, replay="model", mem_est_gb=14 if n > 2 else 5))
    for var, what in [("cuckarood", "direction-alternating bipartite cycle (direction = low nonce bit, balanced)"), ("cuckaroom", "directed cycle in one node set"), ("cuckarooz", "undirected cycle in one node set (every touched node of degree two)")]:
        for n, tiers, est in [(2, "qt", 300), (4, "t", 1800)]:
            obs.append(ob("c05a::%s_verify_matches_definition" % var, tiers, 2 * n + 3,
                          "%sContext::verify == Ok  <=>  right count, strictly ascending, in range, and the edges form one simple cycle by the variant's graph definition (%s), for EVERY assignment of endpoints" % (var.capitalize(), what),
                          "proof size %d, edge_bits 10, nonces full width, endpoints arbitrary (siphash_block replaced by an arbitrary function)" % n,
                          env={"VH_N": n}, tag="_n%d" % n, est=est, replay="model", mem_est_gb=14 if n > 2 else 5))
    obs.append(ob("c05::pow_variant_selection", "qt", 4, "create_pow_context picks cuckatoo unless a production chain asks for <= 29 edge bits, then the cuckaroo variant of header_version(height), none after HF4",
                  "every chain type, height < 2^32, every edge_bits byte", est=60, replay="model"))
    return {
        "obligations": obs,
        "stubs": BASE_STUBS + ["variant constructors new_cuck*_ctx -> tagging stubs (selection obligation only)",
                               "E5 pow::siphash::siphash24 -> arbitrary function (next value of a symbolic table per call); global::proofsize -> the query's n (cycle-logic obligations)",
                               "E6-lite croaring::Bitmap -> 64-value bitset (CuckatooContext::new_impl builds an unused Bitmap)"],
        "explanation": "Bounded proof over Proof::{read, write, pack_nonces}, pack_bits, read_number, extract_bits and global::create_pow_context.",
        "bounds": "edge_bits and proof size concrete per query; nonces / bytes symbolic",
        "outside": "cycle logic of the four cuckaroo* verifiers and proof sizes above 4 (n = 8 did not finish), siphash equivalence, solver (find_cycles), lean miner",
        "assumptions": [],
    }


def c10():
    obs = [
        ob("c10::kernel_features_roundtrip", "qt", 20, "KernelFeatures: decode(encode(x,v),v)==x, exact length, for every variant/fee/height and v in {1,2,3,1000}", "full width on every field", est=200),
        ob("c10::kernel_features_canonical", "qt", 20, "KernelFeatures: any accepted 17-byte string re-encodes to the consumed bytes; unknown tags, non-zero v1 padding, NRD-while-disabled refused", "all 2^136 strings x 4 versions x NRD flag", est=100),
        ob("c10::txkernel_roundtrip_and_hash", "t", 8, "TxKernel round trip field-wise; identity hash independent of protocol version", "all kernels; hashing under the deterministic mixer E4a", est=300, unwindset={"memcmp.0": 70}),
        ob("c10::input_and_output_identifier_roundtrip", "qt", 8, "Input / OutputIdentifier round trip at every version", "all values", est=60, unwindset={"memcmp.0": 40}),
        ob("c10::input_canonical", "qt", 8, "Input: accepted bytes re-encode identically; unknown feature byte refused", "all 34-byte strings", est=60, unwindset={"memcmp.0": 40}),
    ]
    obs.append(ob("c10::sorted_unique_generic_4", "qt", 8, "VerifySortedAndUnique (the canonical-form rule of every body list; generic over Ord, instantiated with u64): Ok exactly for strictly ascending lists, first offending pair decides SortError / DuplicateError",
                  "lists of 4, 2, 1 and 0 symbolic u64", est=30))
    obs.append(ob("c10::sorted_unique_short_ids_3", "qt", 8, "the same rule on the hash-ordered ShortId: accepted exactly when the identity hashes are strictly ascending; a repeated entry is a DuplicateError",
                  "3 symbolic short ids, hashing under the deterministic mixer E4a", est=60, unwindset={"memcmp.0": 40}))
    obs.append(ob("c10::inputs_wire_order_by_version", "qt", 8, "Inputs::write (writer side): two features-and-commit inputs travel as they are at v1/v2 (34 bytes each, order kept) and as their commitments in ascending hash-of-commitment order at v3+ (the order the v3 reader's sorted-and-unique check accepts), whatever their own order was",
                  "2 inputs with symbolic 33-byte commitments and features, either order, versions {1,2,3,1000}; hashing under the deterministic mixer E4a", est=200, loops={"memcmp": 70, "memcpy": 100, "insertion_sort": 4}))
    obs.append(ob("c10::body_inputs_roundtrip_v2_v3", "t", 8, "[thorough-tier ATTEMPT: 660 s / 13 GB not enough] TransactionBody with two features-and-commit inputs decodes from its own encoding at v1/v2 (34-byte inputs) and v3/local (commitments only, re-sorted for the v3 reader); inputs compared by commitment",
                  "2 inputs with symbolic commitments and features, no outputs / kernels, versions {1,2,3,1000}", est=3000, cap_s=3600, loops={"memcmp": 70, "memcpy": 100, "zeroize": 36}))
    for no, nk, ni, tiers in [(1, 0, 0, "x"), (0, 1, 0, "x"), (0, 0, 1, "qt"), (1, 1, 1, "x"), (1, 0, 1, "x")]:
        obs.append(ob("c10c::compact_block_body_roundtrip", tiers, 8, "CompactBlockBody decodes from its own encoding to an equal value at every protocol version: counts written and read in the same order, every list read with its own count",
                      "%d full outputs (empty range proofs) / %d full kernels / %d short ids, contents symbolic, versions {1,2,3,1000}" % (no, nk, ni),
                      env={"VH_NOUT": no, "VH_NK": nk, "VH_NIDS": ni}, tag="_%d_%d_%d" % (no, nk, ni), est=200, loops={"memcmp": 120, "memcpy": 700, "memset": 700, "read_empty_bytes": 18, "copy_from_slice": 700, "extend_desugared": 3, "IteratingReader": 3}, unwindset={}))
    for no, nk, ni, tiers in [(0, 1, 0, "x"), (1, 0, 0, "x"), (1, 1, 0, "x")]:
        obs.append(ob("c10c::compact_block_body_read_counts", tiers, 10, "[ATTEMPT: 660 s / 12 GB not enough] CompactBlockBody::read (reader side only): a buffer announcing these counts followed by arbitrary content of the matching length, whenever accepted, yields lists of exactly the announced lengths - every list is read with its own count, in the written order - and at v1 consumes exactly the buffer",
                      "%d full outputs (empty range proofs) / %d full kernels / %d short ids announced, all content bytes symbolic, versions {1,2,3,1000}" % (no, nk, ni),
                      env={"VH_NOUT": no, "VH_NK": nk, "VH_NIDS": ni}, tag="_%d_%d_%d" % (no, nk, ni), est=200, loops={"memcmp": 120, "memcpy": 700, "memset": 700, "read_empty_bytes": 18, "copy_from_slice": 700, "extend_desugared": 3, "IteratingReader": 3, "compact_block_body_read_counts": 26}, unwindset={}))
    for h, L, what in [
        ("ping_canonical", 16, "p2p Ping"), ("pong_canonical", 16, "p2p Pong"), ("ban_reason_canonical", 4, "p2p BanReason"),
("txhashset_request_canonical", 40, "p2p TxHashSetRequest"),
        ("txhashset_archive_canonical", 48, "p2p TxHashSetArchive"), ("segment_request_canonical", 41, "p2p SegmentRequest"),
        ("segment_identifier_canonical", 9, "SegmentIdentifier"), ("tip_canonical", 80, "chain Tip"), ("commit_pos_canonical", 16, "chain CommitPos"),
        ("header_version_canonical", 2, "HeaderVersion"), ("output_identifier_canonical", 34, "OutputIdentifier"),
        ("txkernel_canonical", 114, "TxKernel (all variants, v1 and v2+ layouts)"), ("difficulty_canonical", 8, "Difficulty"),
        ("block_sums_canonical", 66, "BlockSums (the running sums stored per block)"), ("short_id_canonical", 6, "ShortId"),
        ("nrd_list_wrapper_canonical", 17, "chain ListWrapper<CommitPos> (NRD kernel index: unknown tag refused)"), ("nrd_list_entry_canonical", 33, "chain ListEntry<CommitPos> (NRD kernel index: unknown tag refused)"),
    ]:
        obs.append(ob("c10b::" + h, "qt", 20, "%s: any accepted byte string re-encodes to exactly the bytes consumed (reader and writer agree on field order and widths; nothing normalised)" % what,
                      "all %d-byte strings x protocol versions {1,2,3,1000}" % L, est=60, loops={"memcmp": 120, "memcpy": 120, "read_empty_bytes": 18}))
    for case, what, tiers in [(1, "1_700_000_000", "t"), (0, "0", "t"), (2, "-1", "t"), (3, "i64::MAX", "t"), (4, "i64::MIN", "t"), (5, "just above NaiveDate::MAX", "t"), (6, "NaiveDate::MAX", "t"), (7, "NaiveDate::MIN", "t")]:
        obs.append(ob("c10b::block_header_canonical", tiers, 12, "[thorough-tier ATTEMPT: exceeds 20 GB] BlockHeader: never panics; any accepted 257-byte string re-encodes identically (all roots, offset, sizes, proof of work) and keeps its timestamp",
                      "AutomatedTesting proof size 8, edge_bits 10, timestamp = %s (boundary values enumerated, one per query), all other bytes symbolic" % what,
                      env={"VH_TS": case}, tag="_ts%d" % case, est=300, loops={"memcmp": 300, "memcpy": 300, "zeroize": 36, "read_number": 12, "pack_bits": 12}, mem_est_gb=8))
    return {
        "obligations": obs,
        "stubs": BASE_STUBS + ["E4a Blake2b::compress -> cheap deterministic mixer (equal bytes => equal hash is all the clause needs)"],
        "explanation": "Bounded proof over the Writeable/Readable impls of the fixed-size consensus objects with fully symbolic values / byte strings.",
        "bounds": "fixed-size types: every field at full width; protocol versions {1,2,3,1000}",
        "outside": "containers (TransactionBody, Block, CompactBlock, Segment, Headers, PeerAddrs, Locator), Hand/Shake (length-prefixed strings), Output range proofs, header edge_bits other than 10",
        "assumptions": [],
    }


def c12():
    obs = [
        ob("c12::cut_through_1_2", "qt", 6, "cut_through: remaining = union minus exactly the matched pairs (multiset), slices sorted, no index panic", "1 input + 2 outputs, commitments differ in one symbolic byte", est=420, unwindset={"memcmp.0": 40}, allow_unsat=["two pairs cut"], mem_est_gb=12),
        ob("c12::cut_through_2_1", "qt", 6, "same", "2 inputs + 1 output", est=420, unwindset={"memcmp.0": 40}, allow_unsat=["two pairs cut"], mem_est_gb=12),
        ob("c12::cut_through_2_2", "t", 6, "same", "2 inputs + 2 outputs", est=700, cap_s=3600, unwindset={"memcmp.0": 40}, mem_est_gb=14),
        ob("c12::cut_through_err_iff_duplicate_2_2", "qt", 6, "Err(CutThrough) iff a duplicate survives", "2 + 2", est=500, cap_s=750, unwindset={"memcmp.0": 40}, mem_est_gb=13),
    ] + [
        ob("c12::body_read_time_rules", "qt" if k == 0 else "t", 6, "TransactionBody::validate_read (run on every decoded transaction / block body) accepts a body exactly when " + what + "; each refusal carries its own error",
           "shape " + shape + "; symbolic commitments (one byte each), kernel variants (plain / NRD), excesses, NRD flag; hashing under the deterministic mixer E4a", est=150 if k == 0 else 600, env={"VH_SHAPE": k}, tag="_s%d" % k,
           loops={"memcmp": 70, "zeroize": 36, "memcpy": 120, "insertion_sort": 4}, mem_est_gb=5 if k == 0 else 10)
        for k, shape, what in [(0, "1 input / 1 output / 1 kernel", "the input does not spend the body's own output (no cut-through left inside a body)"),
                               (1, "0 inputs / 0 outputs / 2 kernels", "the kernels ascend strictly by hash and, with NRD on, two NRD kernels do not share an excess")]
    ] + [
        ob("c12::aggregate_two_independent", "x", 4, "[ATTEMPT: did not finish in 3600 s in its first form (two aggregates, real sum_kernel_offsets); retried in round 5 with one aggregate in symbolic operand order and sum_kernel_offsets replaced by its model: 23 GB after 16 min and growing, stopped] aggregate([a, b]) of two transactions that do not spend each other: kernels = union, inputs = union, offset = sum of offsets (model scalar group), independent of operand order",
           "two 1-input / 0-output / 1-kernel transactions with symbolic commitments, excesses, fees and offsets", est=900, cap_s=3600, loops={"memcmp": 70, "zeroize": 36, "memcpy": 120}, replay="model", mem_est_gb=14),
        ob("c12::deaggregate_known_subset_kernel_only", "x", 3, "[ATTEMPT: symbolic execution did not finish in 660 s at unwind 3 or 6; with a 2 h cap it exceeded 40 GB after 26 min] deaggregate(mk, [t]) for kernel-only transactions: the remainder holds exactly the kernel that is not t's, nothing else, and its offset is mk's offset minus t's in the (model) scalar group - also when either offset is zero",
           "mk with 2 kernels in either order, t with one of them; symbolic excesses, both offsets any model scalar", est=600, cap_s=5400, loops={"memcmp": 70, "zeroize": 36, "memcpy": 120, "insertion_sort": 4}, replay="model", mem_est_gb=12),
        ob("c12::cut_through_3_3", "t", 8, "same", "3 inputs + 3 outputs", est=3000, cap_s=5400, unwindset={"memcmp.0": 40}, mem_est_gb=20),
    ]
    return {
        "obligations": obs,
        "stubs": BASE_STUBS + ["E15 core::slice::sort::unstable::sort and alloc::slice::stable_sort -> (stable) insertion sort with the same comparator"],
        "explanation": "Bounded proof over transaction::cut_through instantiated with a harness element type (commitment newtype ordered by its varying byte).",
        "bounds": "slice shapes concrete per query; commitment contents symbolic in one byte (256 values, duplicates and matches included)",
        "outside": "aggregate/deaggregate/hydrate_from over the hash-ordered grin types (measured not to finish), more than 3+3 elements",
        "assumptions": ["cut_through's matching logic does not depend on which total order T: Ord supplies"],
    }


SECP_STUBS = ["E7 algebraic secp model: Secp256k1::{commit,commit_value,commit_sum,blind_sum,verify_bullet_proof_multi}, SecretKey::from_slice, Commitment::to_pubkey, aggsig::verify_batch, static_secp_instance, Drop for Secp256k1 -> commitments are pairs (v,r) in Z_2^16 x Z_2^16 added component-wise; signature/range-proof verification are oracle bits carried in the object",
              "E14 zeroize::barrier::optimization_barrier -> no-op (inline asm compiler barrier)",
              "E4a Blake2b::compress -> cheap deterministic mixer"]


def c01():
    L = {"zeroize": 36, "memcmp": 70}
    obs = [
        ob("c01::kernel_sums_iff_equation_1_2_1", "qt", 5, "Committed::verify_kernel_sums == Ok  <=>  sum(outputs) - sum(inputs) + overage == sum(kernel excesses) + offset (both components)",
           "1 input / 2 outputs / 1 kernel; every commitment any model element; |overage| < 2^40; any offset", est=200, loops=L, replay="model"),
    ]
    obs.append(ob("c01::block_coinbase_sum", "qt", 5, "Block::verify_coinbase == Ok <=> sum(coinbase outputs) - (REWARD + fees) == sum(coinbase kernels)",
                  "1 input / 2 outputs / 2 kernels with symbolic coinbase flags, commitments, fee < 2^40 and fee shift < 16", est=300, loops=L, replay="model", mem_est_gb=8))
    obs.append(ob("c01::block_validate_sound", "t", 5, "Block::validate == Ok on the smallest block (0 inputs / 1 output / 1 kernel, any features) => range proof and signature consulted and valid, outputs - REWARD == kernel excess with (header offset - previous offset) as offset, coinbase output - (REWARD + fees) == coinbase kernel",
                  "symbolic model commitments, output / kernel features, fee < 2^40, oracle bits, header and previous offsets (outside the recorded sum_kernel_offsets finding)", est=1600, cap_s=3600, loops=L, replay="model", mem_est_gb=30, mem_gb=44))
    obs.append(ob("c01::header_overage_arithmetic", "qt", 5, "BlockHeader::overage = -REWARD; total_overage = -(height [+1]) * REWARD; consensus::reward = REWARD + fees (saturating); REWARD = 60 grin",
                  "height < 2^27 (the i64 product overflows near 1.5e8 blocks), any fee", est=30, loops=L))
    for (np_, nn, tiers) in [(1, 1, "qt"), (2, 0, "qt"), (2, 1, "t"), (1, 2, "t"), (2, 2, "t")]:
        obs.append(ob("c01::kernel_offset_sum", tiers, 5, "committed::sum_kernel_offsets(positive, negative) (behind Block::block_kernel_offset, aggregate, the running totals) = group sum of the positive scalars minus the negative ones, zero scalars ignored",
                      "%d positive / %d negative offsets, every scalar of the model group (natively: real libsecp256k1)" % (np_, nn),
                      env={"VH_NPOS": np_, "VH_NNEG": nn}, tag="_%d_%d" % (np_, nn), est=60, loops=L))
    obs.append(ob("c01::kernel_offset_sum", "qt", 5, "WITNESS of the recorded finding: with an empty positive list sum_kernel_offsets returns zero and ignores the negative offsets",
                  "0 positive / 1 negative offset", env={"VH_NPOS": 0, "VH_NNEG": 1}, tag="_0_1", est=60, loops=L, expect_fail=True))
    for (ni, no, nk, tiers) in [(1, 0, 1, "qt"), (0, 1, 1, "qt"), (1, 1, 2, "qt"), (2, 2, 2, "t")]:
        obs.append(ob("c01::body_validate_consults_oracles", tiers, 5, "TransactionBody::validate == Ok => every kernel signature and every range proof was handed to the verifier and is valid",
           "%d inputs / %d outputs / %d kernels; symbolic commitments, output features (plain / coinbase), kernel variants (plain / height-locked / coinbase), oracle bits" % (ni, no, nk),
           env={"VH_NIN": ni, "VH_NOUT": no, "VH_NK": nk}, tag="_%d_%d_%d" % (ni, no, nk), est=200, loops=L, replay="model", mem_est_gb=10))
    # shapes with an empty input or output vector are not registered for this harness: CBMC reports
    # "dereference failure: pointer invalid" inside Vec<Commitment>::retain/as_slice on them (an
    # artefact of the empty-vector model under the E7 stubs that is not yet understood; see DESIGN A.4)
    for (ni, no, nk, tiers, est) in [(1, 1, 1, "t", 700), (1, 2, 1, "t", 900), (1, 1, 2, "t", 900), (2, 2, 1, "t", 1500)]:
        obs.append(ob("c01::tx_validate_sound", tiers, 5, "Transaction::validate == Ok => balance equation with the fees as only extra value AND every kernel signature / range proof consulted and valid AND no coinbase output or kernel",
           "%d inputs / %d outputs / %d kernels; symbolic commitments, feature variants, fee < 2^40, shift < 16, coinbase flags, oracle bits, offset" % (ni, no, nk),
           env={"VH_NIN": ni, "VH_NOUT": no, "VH_NK": nk}, tag="_%d_%d_%d" % (ni, no, nk), est=est, loops=L, replay="model", cap_s=1500 if "q" in tiers else 3600, mem_est_gb=12))
    obs += [
    ]
    return {
        "obligations": obs,
        "stubs": BASE_STUBS + SECP_STUBS,
        "explanation": "Bounded proof over the real Committed / Transaction validation code with the secp256k1 FFI replaced by a homomorphic image of the commitment group; asserts accept => model equation and oracles consulted.",
        "bounds": "body shapes concrete per query; model group Z_2^16 x Z_2^16",
        "outside": "chain-level sums (pipe.rs, txhashset), blocks and coinbase rules (not yet encoded), real curve arithmetic / signatures / bulletproofs, equation violations that vanish modulo 2^16 in both components",
        "assumptions": ["libsecp256k1-zkp implements an additively homomorphic binding commitment and sound signature / range-proof verification"],
    }


def c13():
    obs = [
    ] + [
        ob("c13::block_lock_heights", "qt", 6, "Block::validate_read never accepts a block holding a height-locked kernel above the block height; the lock-height error is exact; boundaries at / one above covered",
           "2 kernels, shape %s (1-3: bit i set = kernel i height-locked with any u64 lock height, else plain; 4 / 5: kernel 0 / 1 is an NRD kernel, the other height-locked), any block height" % sh,
           env={"VH_SHAPE": sh}, tag="_shape%s" % sh, est=200, loops={"memcmp": 70, "zeroize": 36})
        for sh in ("3", "1", "2", "4", "5")
    ] + [
        ob("c13::nrd_relative_height_range", "qt", 4, "NRDRelativeHeight (constructor and decoder) accepts exactly 1..=WEEK_HEIGHT", "every u64 / u16", est=20),
        ob("c13::body_lock_height_is_max", "qt", 6, "TransactionBody::lock_height = max absolute lock height of its kernels", "2 kernels of symbolic variant", est=60),
    ]
    return {
        "obligations": obs,
        "stubs": BASE_STUBS + ["E4a Blake2b::compress -> cheap deterministic mixer (kernel ordering by hash)"],
        "explanation": "Bounded proof over Block::validate_read / verify_kernel_lock_heights, TransactionBody::lock_height and NRDRelativeHeight.",
        "bounds": "blocks with exactly 2 kernels and no inputs/outputs; heights full width",
        "outside": "coinbase maturity (UTXOView, LMDB), NRD relative-height index (LMDB linked list), pool lock-height forwarding, every fork/rewind clause",
        "assumptions": [],
    }


def c14():
    obs = [
        ob("c14::tx_fee_gate_inputs", "qt", 6, "Transaction::{weight, fee, shifted_fee, accept_fee} - the quantities TransactionPool::is_acceptable compares - follow their definitions",
           "1-in/0-out/1-kernel tx, fee < 2^40, shift < 16, base < 2^40", est=60, loops={"memcmp": 70, "zeroize": 36}),
        ob("c14::add_to_pool_gate_sequencing", "x", 3, "[ATTEMPT: symbolic execution did not finish in 660 s at unwind 3 or 6; with a 2 h cap it exceeded 40 GB after 36 min; with BlindingFactor::add replaced by its model it was still growing (8 GB) after 15 min] TransactionPool::add_to_pool (empty pools, one transaction; chain, adapter and standalone validation answer arbitrarily): admitted ONLY IF the shifted fee reaches weight * accept_fee_base, standalone validation as a transaction (weight limit included) ran and accepted, lock height / coinbase maturity / utxo checks were made against the chain and passed, the pool aggregate validated, and an NRD kernel is enabled and past header version 4; stem goes to the stempool only unless the adapter refuses; a refusal leaves the public pool empty and announces nothing; below the fee floor the refusal is LowFeeTransaction before any validation",
           "1-in/0-out/1-kernel tx (plain / height-locked / NRD), fee < 2^40, shift < 16, base < 2^40, stem or fluff, every header version, NRD flag, symbolic verdicts of the chain, the adapter and Transaction::validate (tagging stub; the validation itself is C01)", est=400,
           loops={"memcmp": 70, "zeroize": 36, "memcpy": 120}, replay="model", mem_est_gb=12),
        ob("c14::pool_add_validates_against_chain", "t", 3, "Pool::add_to_pool (aggregate-and-validate step of both pools) on an empty pool: the entry is stored only if validation of the aggregate ran and accepted (tagging stub), the chain's utxo check passed and the kernel sums balance on top of the chain's block sums (E7 model; BlindingFactor::add replaced by its model); a refusal leaves the pool empty",
           "1-in/0-out/1-kernel tx with symbolic model commitments, fee < 2^16, offset; symbolic verdicts of validation and of the chain", est=900, cap_s=3600,
           loops={"memcmp": 70, "zeroize": 36, "memcpy": 120, "pack_bits": 50, "write": 50}, replay="model", mem_est_gb=22),
        ob("c14::pool_refuses_low_fee", "t", 6, "TransactionPool::add_to_pool refuses (LowFeeTransaction) every tx whose shifted fee is below weight*accept_fee_base; weight / shifted_fee / accept_fee formulas",
           "[thorough-tier ATTEMPT: did not finish in 37 min / 23 GB] 1-in/0-out/1-kernel tx, fee < 2^40, shift < 16, base < 2^40, plain or height-locked kernel, stem or fluff, empty pools", est=3000, cap_s=3600, loops={"memcmp": 70, "zeroize": 36}),
        ob("c14::pool_refuses_nrd_unless_enabled_and_hf3", "t", 6, "add_to_pool refuses NRD kernels while the feature is off or the header version is below 4",
           "[thorough-tier ATTEMPT] every header version (u16), flag on/off", est=3000, cap_s=3600, loops={"memcmp": 70, "zeroize": 36}),
        ob("c14::fee_and_weight_arithmetic", "qt", 6, "body fee = sum, fee_shift = max, shifted fee = sum >> max over fee-carrying kernels; weight_by_iok = i + 21 o + 3 k saturating",
           "3 kernels (plain, coinbase, height-locked) with symbolic fee fields; counts full width", est=60),
    ]
    return {
        "obligations": obs,
        "stubs": BASE_STUBS + ["E14 zeroize barrier -> no-op", "model BlockChain / PoolAdapter trait objects (the pool is generic over them); not reached by the early-refusal obligations"],
        "explanation": "Bounded proof over TransactionPool::{new, add_to_pool, verify_kernel_variants, is_acceptable}, Transaction::{weight, shifted_fee, accept_fee}, TransactionBody::{fee, fee_shift, shifted_fee, weight_by_iok}.",
        "bounds": "empty pools; one transaction of fixed shape with symbolic fee fields and configuration",
        "outside": "everything after the fee gate: standalone validation inside the pool path, Pool::add_to_pool aggregate-and-validate with non-empty pools, reconcile, reorg cache, eviction, prepare_mineable_transactions (the 'after any sequence' part of the property)",
        "assumptions": [],
    }


def c19():
    obs = [
        ob("c19::frame_header_limits", "qt", 6, "MsgHeaderWrapper::read: accepted => network magic, type/length are the wire fields, length <= 4x the per-type limit (default limit for unknown types); refused only for wrong magic or over-limit length; no allocation",
           "all 2^88 frame headers x 4 chain types", est=60),
        ob("c19::frame_header_writer_matches_reader", "qt", 6, "every frame header the reader accepts is reproduced byte for byte by MsgHeader::write, and MsgHeader::new stamps the same magic",
           "all 2^88 frame headers x 4 chain types", est=60),
        ob("c19::writer_frames_messages", "x", 46, "[ATTEMPT: exceeds 8 GB within 80 s and keeps growing; cause not isolated (suspected: the rate counter's truncate loop / Vec::remove under a non-constant clock value)] the sending side: two messages written one after the other through Msg::new + write_message (one connection tracker) form exactly two frames: network magic, type byte, body length as big-endian u64 (what the reader's header parser accepts), body bytes in field order; nothing before, between or after them; no allocation above 4 KiB",
           "a Ping with every difficulty / height followed by a BanReason, all chain types, protocol version 1", est=120, loops={"memcpy": 60, "memcmp": 40, "extend": 40, "write_all": 4}, mem_est_gb=6),
        ob("c19::message_sequence_under_fragmentation", "x", 8, "[ATTEMPT: does not finish, same reason as read_message_type_mismatch_keeps_stream] a Ping, a frame of an unknown type and a Pong written by the real writer (Msg::new + write_message) are read back by read_message over a fragmenting reader as the identical typed messages; the unknown frame is a bad message whose announced body is skipped (stream stays in step); exactly the written bytes are consumed; no allocation above 4 KiB",
           "all field values, unknown type byte 200, 3 junk bytes, Mainnet, protocol version 1; fragmentation: EVERY single packet boundary (each of the 67 offsets, enumerated in the harness), no boundary, and byte-by-byte delivery (cut points are concrete: symbolic cut points make buffer indices symbolic and the query does not finish)", est=300,
           loops={"Frag": 18, "read_exact": 18, "default_read_exact": 18, "memcpy": 40, "memcmp": 40, "extend": 40, "write_all": 4, "message_sequence_under_fragmentation": 72}, mem_est_gb=8, env={"VH_UNKTYPE": 200}, tag="_t200"),
        ob("c19::read_message_type_mismatch_keeps_stream", "x", 12, "[ATTEMPT: does not finish - the announced length is parsed out of a memcpy'd buffer, CBMC does not fold it to a constant, and the body buffer becomes a symbolic-length object] read_message::<Ping> on a frame with the wrong magic, of another known type, of an unknown type, or a Ping announcing an empty body: refused after consuming exactly the 11 header bytes",
           "every magic and type byte, announced length 0, 11 arbitrary following bytes, all chain types; delivered unfragmented, with a packet boundary inside the header, and byte-by-byte", est=120, loops={"Frag": 13, "read_exact": 13, "default_read_exact": 13, "memcpy": 40, "memcmp": 40, "read_message_type_mismatch_keeps_stream": 9}),
        ob("c19::codec_ping_then_unknown_then_pong", "x", 10, "[ATTEMPT] the streaming Codec (reader of every established connection) decodes a Ping frame, a frame of unknown type and a Pong frame arriving in fragments as Ping, Unknown(type), Pong with the written values, consuming exactly the stream",
           "all field values, every unknown type byte, 2 junk bytes, Mainnet; packet boundary at offsets 1, 5, 11, 20, 30, 39, 45, none, and byte-by-byte; socket replaced by a fragmenting byte source (E8)", est=1500, cap_s=3600,
           loops={"sock": 18, "read_exact": 18, "default_read_exact": 18, "memcpy": 40, "memcmp": 40, "read_inner": 20, "put": 20, "codec_ping_then_unknown_then_pong": 11}, mem_est_gb=16, replay="model"),
        ob("c19::read_message_wrong_type_refused", "x", 14, "[ATTEMPT: did not finish in 300 s; the announced length is symbolic and the body buffer becomes a symbolic-size object] read_message::<Ping> over an 11-byte stream: wrong magic refused, other type => error, never a panic or body allocation beyond the bound",
           "all 11-byte streams, Mainnet", est=120),
    ]
    return {
        "obligations": obs,
        "stubs": BASE_STUBS + ["E12 allocation ghost (concrete 4 KiB blocks; every request asserted against the bound)"],
        "explanation": "Bounded proof over p2p::msg::{MsgHeaderWrapper::read, read_message, read_header, read_body, read_discard} driven from a symbolic byte slice.",
        "bounds": "one frame header (11 bytes)",
        "outside": "Codec state machine under fragmentation (queries did not finish), attachments, header batches, handshake (socket + RNG), timeouts, conn.rs threads",
        "assumptions": ["the per-type limits restated in the harness are the protocol's constants (a deliberate protocol change of a limit must update the harness)"],
    }


def c15():
    obs = []
    for ca, cb, nch, d, tiers in [(0, 0, 1, 0, "t"), (0, 1, 2, 0, "t"), (0, 1, 2, 1, "t"), (0, 0, 1, 1, "t"), (1, 0, 2, 0, "t"), (0, 2, 3, 0, "t"), (0, 2, 3, 1, "t"), (1, 1, 2, 1, "t")]:
        obs.append(ob("c15::apply_equals_init", tiers, 8,
                      "[ATTEMPT: experimental, C15 is not claimed] BitmapAccumulator::apply (rewind to the first affected chunk, pad, re-apply) yields the same MMR root as init from scratch over the resulting unspent set",
                      "kept bit in chunk %d, changed bit in chunk %d (%s), %d chunks; offsets inside the 1024-bit chunks symbolic" % (ca, cb, "becomes unspent" if d == 0 else "becomes spent", nch),
                      env={"VH_CA": ca, "VH_CB": cb, "VH_NCH": nch, "VH_DIR": d}, tag="_a%d_b%d_n%d_d%d" % (ca, cb, nch, d), est=400,
                      loops={"memcmp": 140, "memcpy": 140, "to_bytes": 140, "any": 40, "from_elem": 40, "BitVec": 140, "Blocks": 40, "peak_map_height": 66, "peak_sizes_height": 66}, mem_est_gb=10))
    return {
        "obligations": obs,
        "stubs": BASE_STUBS + ["E4a hash mixer", "E3 RandomState", "E6-lite croaring::Bitmap (rewind passes an empty bitmap)", "E9 Instant::now / SystemTime::now -> fixed instant"],
        "explanation": "Bounded proof over BitmapAccumulator::{new, init, apply, apply_from, rewind_prior, pad_left, append_chunk, root} and BitmapChunk on a VecBackend.",
        "bounds": "two set bits (one kept, one changing), chunk placement concrete per query, offsets symbolic",
        "outside": "Extension::apply_to_bitmap_accumulator's computation of the changed indices (needs a live Extension), rebuild on open, merged-root validation in TxHashSetRoots, more than two bits",
        "assumptions": [],
    }


def c16():
    obs = []
    HL = {"memcmp": 40, "compress": 66}
    for n, h, idx, tiers in [(3, 1, 0, "qt"), (3, 1, 1, "qt"), (3, 0, 2, "qt"), (3, 1, 2, "qt"), (4, 1, 1, "t"), (5, 2, 0, "t"), (5, 1, 2, "t")]:
        obs.append(ob("c16::segment_complete", tiers, 8,
                      "Segment::from_pmmr exists iff its first leaf is inside the mmr; what it produces validates against the root (validate) and under a merged root (validate_with)",
                      "%d leaves (symbolic contents), segment height %d index %d, non-prunable" % (n, h, idx),
                      env={"VH_NLEAF": n, "VH_SEGH": h, "VH_SEGIDX": idx}, tag="_n%d_h%d_i%d" % (n, h, idx), est=300, loops=HL, allow_unsat=["segment produced"] if idx * (1 << h) >= n else []))
    for bits, tiers in [(16, "qt"), (24, "x"), (32, "x")]:
        obs.append(ob("c16::segment_identifier_arithmetic", tiers, 4,
                      "SegmentIdentifier::{segment_capacity, count_segments_required, pmmr_size, segment_pos_range} equal the closed forms of the MMR definition: capacity 2^h, ceil(leaves/capacity) segments, first position = position of leaf idx*2^h, a full segment ends at the root of its perfect subtree, the partial last segment at the end of the MMR",
                      "every MMR of 1 <= n < 2^%d leaves, every segment height <= 13, every index < 2^20" % bits,
                      env={"VH_LIMBITS": bits}, tag="_w%d" % bits, est=120, loops={"peak_map_height": 66}))
    for n, h, idx, tiers in [(4, 1, 0, "t"), (4, 1, 1, "t"), (3, 1, 1, "t"), (4, 0, 2, "t"), (5, 1, 1, "t")]:
        obs.append(ob("c16::segment_prunable_uncompacted_complete", tiers, 8,
                      "prunable MMR, spent leaves pruned but not compacted: the segment from_pmmr(prunable) produces validates against the root under EVERY unspent bitmap (whole segment spent, sibling subtree spent too, partial, none)",
                      "%d leaves (symbolic contents), segment height %d index %d, symbolic unspent bitmap over the leaves" % (n, h, idx),
                      env={"VH_NLEAF": n, "VH_SEGH": h, "VH_SEGIDX": idx}, tag="_n%d_h%d_i%d" % (n, h, idx), est=1500, cap_s=3600, loops=HL, mem_est_gb=12))
    for n, h, idx, hpos, tiers in [(8, 1, 0, 6, "qt"), (8, 1, 0, 14, "qt"), (8, 1, 1, 6, "qt"), (8, 0, 2, 6, "t"), (8, 1, 2, 13, "t"), (16, 2, 0, 14, "qt"), (16, 2, 0, 30, "t"), (6, 1, 0, 6, "t"), (16, 1, 3, 14, "t"), (16, 2, 2, 29, "t")]:
        obs.append(ob("c16::pruned_segment_parent_covers_only_spent_leaves", tiers, 8,
                      "a fully spent segment carrying one hash at an ancestor of its root: first_unpruned_parent (the hash validate() checks the proof against) accepts the ancestor exactly when no leaf under it is unspent in the bitmap - an omitted unspent leaf (leftmost, middle or rightmost) is refused; unspent leaves of the segment without data are refused",
                      "%d leaves, segment height %d index %d, hash at position %d, every unspent bitmap, any hash value" % (n, h, idx, hpos),
                      env={"VH_NLEAF": n, "VH_SEGH": h, "VH_SEGIDX": idx, "VH_HPOS": hpos}, tag="_n%d_h%d_i%d_p%d" % (n, h, idx, hpos), est=200,
                      loops=dict(HL, peak_map_height=66, pruned_segment_parent=20), mem_est_gb=6))
    for have, tiers in [(12, "qt"), (15, "qt"), (4, "t"), (3, "t"), (0, "t"), (8, "t"), (14, "t"), (5, "t")]:
        obs.append(ob("c16::prunable_segment_root_needs_unspent_leaves", tiers, 10,
                      "a height-2 segment carrying a subset of its four leaves plus both height-1 parent hashes: Segment::root (first step of validate) succeeds only if every leaf the bitmap marks unspent is carried, and always when all four are carried",
                      "8-leaf MMR, segment (2, 0), carried leaves = bits of %d, every unspent bitmap, symbolic leaf data and hashes" % have, est=200,
                      env={"VH_HAVE": have}, tag="_have%d" % have, loops=dict(HL, peak_map_height=66, prunable_segment_root=10), mem_est_gb=8,
                      allow_unsat=(["some bitmap makes this segment fail"] if have == 15 else [])))
    for n, h, idx, tiers in [(2, 0, 0, "t"), (3, 1, 0, "t"), (3, 1, 1, "t")]:
        obs.append(ob("c16::segment_sound", tiers, 8,
                      "under the ideal hash: changing a leaf's data or position, a proof hash, dropping a leaf or proof hash, or the identifier makes validate fail  [thorough-tier ATTEMPT: did not finish in 30 min at 3 leaves]",
                      "%d leaves, segment height %d index %d, symbolic single corruption" % (n, h, idx),
                      env={"VH_NLEAF": n, "VH_SEGH": h, "VH_SEGIDX": idx}, tag="_n%d_h%d_i%d" % (n, h, idx), est=400, loops=HL, replay="model", cap_s=1200 if "q" in tiers else 3600))
    return {
        "obligations": obs,
        "stubs": BASE_STUBS + ["E4a / E4b hash models as in C07", "E3 RandomState::new -> fixed keys"],
        "explanation": "Bounded proof over Segment::{from_pmmr, root, first_unpruned_parent, validate, validate_with}, SegmentProof::{generate, reconstruct_root} on MMRs built by the real PMMR over VecBackend.",
        "bounds": "MMR size, segment height and index concrete per query; leaf contents and the corruption symbolic",
        "outside": "prunable segments (need the croaring bitmap model), Segmenter / Desegmenter / txhashset zip (LMDB + files): 'never finalises a wrong state' is not decided here",
        "assumptions": ["hash collision freedom (ideal hash) for the soundness obligations"],
    }


def c08():
    obs = []
    L = {"closure": 66, "roots_of": 66, "ref_shift": 66, "ref_leaf_shift": 66, "check_caches": 66, "prune_list_iterators": 70, "select": 10}
    PL = "K maximal pruned subtrees at symbolic positions < %d (pairwise disjoint, no complete sibling pair) with the defining prefix sums in both caches"
    for k, lim, tiers in [(0, 31, "qt"), (1, 31, "qt"), (2, 31, "qt"), (3, 31, "qt"), (2, 63, "t"), (3, 63, "t"), (4, 63, "t")]:
        e = {"VH_K": k, "VH_LIM": lim}
        tag = "_k%d_l%d" % (k, lim)
        R = {"PruneList::append": 7 if lim == 63 else 6}
        st = "pre-state: K = %d, " % k + PL % lim
        obs.append(ob("c08::prune_list_queries", tiers, 8, "from ANY valid prune-list state: is_pruned / is_pruned_root / get_shift / get_leaf_shift / totals / len equal the definition (maximal pruned subtrees; nodes and leaves removed at or before pos)", st + "; probe symbolic", env=e, tag=tag, est=120, loops=L, allow_unsat=["probe inside a pruned subtree", "unpruned probe to the right of a pruned subtree"] if k == 0 else []))
        obs.append(ob("c08::prune_list_append_step", tiers, 8, "INDUCTIVE STEP: one PruneList::append from any valid state (roll-up of siblings, clean-up of swallowed entries) yields a valid state for the enlarged pruned set: all queries and both caches equal the definition", st + "; appended position symbolic, right of every root", env=e, tag=tag, est=300, loops=L, recurse=R, allow_unsat=["appended subtree swallows existing entries", "appended position rolled up into an ancestor"] if k == 0 else []))
        if k > 0:
            obs.append(ob("c08::prune_list_init_caches", tiers, 8, "init_caches (reopen) rebuilds exactly the defining caches from the bitmap", st, env=e, tag=tag, est=200, loops=dict(L, **{"build_shift_cache": k + 2, "build_leaf_shift_cache": k + 2})))
        if False:
            obs.append(ob("c08::prune_list_iterators", tiers, 8, "unpruned_iter / unpruned_leaf_iter / iter / pruned_bintree_range_iter enumerate exactly the unpruned positions / leaves / roots / pruned ranges", st + "; cutoff symbolic", env=e, tag=tag, est=300, loops=dict(L, prune_list_iterators=lim + 3), recurse={"next": k + 3}))
    for k, lim, tiers in [(1, 15, "x"), (2, 15, "x")]:
        e = {"VH_K": k, "VH_LIM": lim}
        obs.append(ob("c08::prune_list_iterators", tiers, 8, "[ATTEMPT: 660 s / 18 GB not enough even on 15 positions] unpruned_iter / unpruned_leaf_iter / iter / pruned_bintree_range_iter enumerate exactly the unpruned positions / leaves / roots / pruned ranges",
                      "pre-state: K = %d, " % k + PL % lim + "; cutoff symbolic", env=e, tag="_k%d_l%d" % (k, lim), est=300, loops=dict(L, prune_list_iterators=lim + 3), recurse={"next": k + 3}, mem_est_gb=12))
    BL = {"peak_map_height": 8, "bitmap_from_bits": 66, "bits_of": 66, "leaves1": 66, "leaf_set_rewind": 66, "removed_excl_roots_keeps_roots": 66, "closure": 66, "roots_of": 66}
    for lim, tiers in [(15, "qt"), (31, "t")]:
        obs.append(ob("c08::removed_excl_roots_keeps_roots", tiers, lim + 3, "removed_excl_roots keeps exactly the removed positions whose parent is not removed (their hashes stay available for Merkle proofs)",
                      "any set of positions < %d" % lim, env={"VH_LIM": lim, "VH_K": 0}, tag="_l%d" % lim, est=200, loops=BL))
    for lim, tiers in [(31, "qt"), (63, "t")]:
        obs.append(ob("c08::leaf_set_rewind", tiers, 8, "LeafSet::rewind(cutoff, removed) = (set restricted to positions <= cutoff) united with removed; includes / len / is_empty / n_unpruned_leaves_to_index / add / remove are the set operations",
                      "any leaf set and any removed set over positions < %d, any cutoff" % lim, env={"VH_LIM": lim, "VH_K": 0}, tag="_l%d" % lim, est=60, loops=BL))
    for k, lim, tiers in [(0, 15, "qt"), (1, 15, "qt"), (2, 15, "qt"), (2, 31, "t")]:
        obs.append(ob("c08::leaf_set_removed_pre_cutoff", tiers, lim + 3, "LeafSet::removed_pre_cutoff = leaf positions up to the cutoff that are neither unspent at the cutoff (set restricted to the cutoff plus the positions removed since) nor already pruned: exactly what a compaction at that cutoff may remove",
                      "any leaf set / removed set over positions < %d, any cutoff, prune list: K = %d " % (lim, k) + PL % lim, env={"VH_LIM": lim, "VH_K": k}, tag="_k%d_l%d" % (k, lim), est=300, loops=BL, mem_est_gb=8))
    for k, lim, tiers in [(0, 15, "qt"), (1, 15, "t"), (2, 15, "t")]:
        obs.append(ob("c08::compaction_plan_matches_definition", tiers, lim + 3, "PMMRBackend::pos_to_rm (planning step of check_compact, on a backend with detached files): leaves removed = spent unpruned leaves up to the cutoff; positions to remove = positions newly interior to a pruned subtree (roots of pruned subtrees stay, already-removed positions are not removed twice)",
                      "any consistent leaf set / rewind set over positions < %d, any cutoff, prune list: K = %d " % (lim, k) + PL % lim, env={"VH_LIM": lim, "VH_K": k}, tag="_k%d_l%d" % (k, lim), est=400 if k == 0 else 1200, cap_s=700 if k == 0 else 3600, loops=dict(BL, **{"pos_to_rm#0": 7 if lim == 31 else 6, "pos_to_rm#1": (lim + 1) // 2 + 2}), mem_est_gb=12, allow_unsat=["a previously pruned root becomes interior and is removed now"] if k == 0 else []))
    for k, lim, tiers in [(1, 31, "t"), (2, 31, "t")]:
        obs.append(ob("c08::prune_list_new_matches_definition", tiers, 8, "PruneList::new over K ascending disjoint subtrees (siblings allowed: roll-up inside new) equals the definition", "K = %d positions < %d, symbolic" % (k, lim), env={"VH_K": k, "VH_LIM": lim}, tag="_k%d_l%d" % (k, lim), est=900, loops=dict(L, **{"PruneList3new": k + 2}), recurse={"PruneList::append": 6}, mem_est_gb=20))
    return {
        "obligations": obs,
        "stubs": BASE_STUBS + ["E6 croaring::Bitmap -> 64-value bitset (new, add, remove, contains, rank, select, maximum, minimum, cardinality, is_empty, remove_range, add_range, or_inplace, and, andnot, flip, range_cardinality, run_optimize, clone, cursor at_first/move_next): CRoaring itself (C) is trusted to implement a set of u32",
                               "E12 allocation stub: concrete 64-byte blocks, realloc in place (Vec growth creates no new heap objects)"],
        "explanation": "Bounded proof over store::prune_list::PruneList by induction on its operations: the representation invariant (maximal pruned subtrees + defining prefix sums) is the symbolic pre-state, one real operation is run, and every observable is compared with the definition.",
        "bounds": "universe = perfect tree of 31 positions (quick) / 63 positions (thorough); number of entries in the pre-state concrete per query (0..3 quick, ..4 thorough), their positions symbolic",
        "outside": "prune lists with more entries than the stated K; the file layer (AppendOnlyFile/DataFile, write_tmp_pruned, replace_with_tmp), PMMRBackend read-path index translation and check_compact sequencing, reopen from a real file, chain-level compaction: all need real files",
        "assumptions": ["CRoaring implements a set of u32 correctly", "hook PruneList::verif_from_parts (cfg(any(kani, grin_verif))) only assembles the struct"],
    }


def c20():
    L = {"memcmp": 70, "memcpy": 70, "zeroize": 40, "compress": 66, "from_bytes": 24, "serialize_vec": 36}
    L2 = {"memcmp": 34, "zeroize": 34, "memcpy": 34}
    obs = [
        ob("c20::key_id_path_roundtrip", "qt", 8, "Identifier <-> ExtKeychainPath <-> serialized path round trips exactly (depth byte + four big-endian child numbers, in order); parent_path / last_path_index / derive_key_id follow the path definition",
           "every depth byte and every four u32 child numbers", est=60, loops=L),
        ob("c20::switch_commitment_type_bytes", "qt", 4, "SwitchCommitmentType <-> u8: exactly 0 and 1 are valid and map back", "every byte", est=10),
        ob("c20::proof_builder_rewind_message", "qt", 8, "ProofBuilder: the 20-byte rewind message written for (key id, switch) is read back by check_output as exactly that key id and switch for the wallet's own commitment; any other message byte, amount, message length or wallet recovers nothing",
           "every amount, path of depth 0..=4 with any child numbers, both switch modes, any two different model wallets, any single corrupted message byte", est=200, loops=L, replay="model"),
        ob("c20::legacy_proof_builder_rewind_message", "qt", 8, "LegacyProofBuilder: same for the pre-HF1 message layout (depth-3 paths, regular switch commitments)",
           "every amount, depth-3 path with any child numbers, any two different model wallets, any single corrupted message byte", est=200, loops=L, replay="model", allow_unsat=["depth 4", "depth 0"]),
        ob("c20::blinding_factor_split", "qt", 5, "BlindingFactor::split over the scalar group (E7 model under Kani, real libsecp256k1 in the native replay): the second part is whole - first part",
           "every pair of distinct non-zero model scalars", est=300, loops={"zeroize": 36, "memcmp": 70}),
        ob("c20::blinding_factor_add", "x", 5, "[ATTEMPT: symbolic execution of the filter / filter_map / collect chain does not finish in 660 s] BlindingFactor::add: a + b == b + a == the group sum; zero is the identity",
           "every pair of model scalars whose sum is not zero (the real library refuses a zero sum)", est=300, loops={"zeroize": 36, "memcmp": 70}),
    ]
    return {
        "obligations": obs,
        "stubs": BASE_STUBS + SECP_STUBS + ["model keychain (implements the public Keychain trait): commit = injective packing of (wallet key, amount, key id, switch)", "PublicKey::serialize_vec -> constant bytes (FFI; only feeds the rewind-nonce hash, which the checked functions do not use)"],
        "explanation": "Bounded proof over keychain::{Identifier, ExtKeychainPath, SwitchCommitmentType, BlindingFactor::{add, split}} and core::libtx::proof::{ProofBuilder, LegacyProofBuilder}::{new, proof_message, check_output}.",
        "bounds": "all field values at full width; blinding factors in the model group Z_2^16",
        "outside": "everything executed inside libsecp256k1-zkp: BIP32 derivation, commitments, bulletproof create / verify / rewind, aggsig, build::transaction; ViewKey::check_output (BIP32 public derivation)",
        "assumptions": ["libsecp256k1's commitment binds (wallet key, amount, key id, switch): stated by the model keychain's injective commit"],
    }


PLAN = {
    "C08": c08(),
    "C20": c20(),
    "C01": c01(),
    "C04": c04(),
    "C05": c05(),
    "C10": c10(),
    "C12": c12(),
    "C13": c13(),
    "C14": c14(),
    "C15": c15(),
    "C16": c16(),
    "C19": c19(),
    "C07": c07(),
    "C11": c11(),
}
