"""Obligations per property: which harness, which bounds, which tier.  (DESIGN.md §6)"""

MAX_PAR = 14
TIER_CAPS = {
    "quick": {"cap_s": 600, "mem_gb": 20},
    "thorough": {"cap_s": 3600, "mem_gb": 30},
}

BASE_STUBS = [
    "E1 alloc::fmt::format -> empty String (message text is never observed)",
    "E2 global::{get_chain_type,is_nrd_enabled,get_accept_fee_base,get_future_time_limit} -> harness statics (configuration is an explicit input)",
    "E11 parking_lot RawMutex/RawRwLock lock/unlock -> no-ops (single-threaded symbolic execution)",
    "E13 ser::map_io_err / From<io::Error> for ser::Error -> same value, io::Error forgotten instead of dropped",
]


def ob(h, tiers="qt", unwind=8, claim="", bounds="", est=60, **kw):
    d = {"harness": h, "tiers": ["quick"] * ("q" in tiers) + ["thorough"] * ("t" in tiers),
         "unwind": unwind, "claim": claim, "bounds": bounds, "est_s": est}
    d.update(kw)
    return d


def c07():
    obs = []
    W = "positions/sizes < 2^%d"
    for name, claim, q, t in [
        ("leaf_positions_follow_append_rule", "insertion_to_pmmr_index obeys pos(0)=0, pos(n+1)=pos(n)+1+tz(n+1) (append rule, base+step => every n)", 62, 62),
        ("height_by_append_rule", "height/is_leaf/leaf index/n_leaves/round_up agree with the append rule for every position", 16, 24),
        ("family_matches_tree", "family/is_left_sibling agree with the explicit tree (right child iff next position is the parent)", 16, 24),
        ("family_is_symmetric", "family(sibling) == (parent, self)", 16, 24),
        ("subtree_ranges", "bintree_leftmost/rightmost/range and leaf counts of a subtree", 16, 24),
        ("peaks_decompose_size", "peaks() = strictly shrinking perfect trees covering exactly the mmr; empty iff size invalid", 16, 24),
        ("family_branch_is_iterated_family", "family_branch entries are iterated family() inside the mmr", 12, 16),
        ("family_branch_is_maximal", "family_branch stops only when the next parent leaves the mmr", 12, 16),
    ]:
        obs.append(ob("c07a::" + name, "q", 66, claim, W % q, env={"VH_LIMBITS": q}))
        obs.append(ob("c07a::" + name, "t", 66, claim, W % t, env={"VH_LIMBITS": t}, est=600))
    return {
        "obligations": obs,
        "stubs": BASE_STUBS,
        "explanation": "Bounded proof by Kani/CBMC over the compiled grin_core::core::pmmr functions; inputs are symbolic u64.",
        "bounds": "see per-obligation bounds; all loops fully unwound (unwind 66 >= 64-bit descent + 1), unwinding assertions on",
        "outside": "PMMRBackend-backed MMRs (C08)",
        "assumptions": [],
    }


BYTE_LOOPS = {"memcmp.0": 40, "memcpy.0": 40}


def c11():
    obs = []
    for h, claim, b, u in [
        ("merkle_proof_read_16", "MerkleProof::read on any 16 bytes (mmr_size, path_len): no panic, bounded allocation", "L=16, every byte symbolic, protocol version in {1,2,3,1000}", 6),
        ("merkle_proof_read_48", "MerkleProof::read on any 48 bytes (header + one hash)", "L=48", 6),
        ("segment_proof_read_8", "SegmentProof::read on any 8 bytes", "L=8", 6),
        ("segment_proof_read_40", "SegmentProof::read on any 40 bytes", "L=40", 6),
        ("segment_identifier_read_9", "SegmentIdentifier::read on any 9 bytes", "L=9", 4),
        ("merkle_proof_from_hex_ascii_32", "MerkleProof::from_hex on any 32 ASCII characters: no panic, bounded allocation", "32 symbolic ASCII bytes", 36),
        ("util_from_hex_utf8_4", "util::from_hex on any valid UTF-8 string of 4 bytes: no panic", "4 symbolic bytes, assumed valid UTF-8", 8),
    ]:
        obs.append(ob("c11::" + h, "qt", u, claim, b,
                      allow_unsat=["some input is refused"] if h == "segment_identifier_read_9" else []))
    for h, b in [
        ("segment_validate_h0_s1_empty", "height 0, mmr_size 1, idx 0..=4, 0 hashes/0 leaves/0 proof hashes"),
        ("segment_validate_h0_s4", "height 0, mmr_size 4, idx 0..=4, 0/1/2"),
        ("segment_validate_h1_s4_empty", "height 1, mmr_size 4, idx 0..=4, 0/0/0"),
        ("segment_validate_h1_s4", "height 1, mmr_size 4, idx 0..=4, 0/2/1"),
        ("segment_validate_h1_s7", "height 1, mmr_size 7, idx 0..=4, 1/2/1"),
        ("segment_validate_h2_s10_empty", "height 2, mmr_size 10, idx 0..=4, 0/0/0"),
        ("segment_validate_h2_s11", "height 2, mmr_size 11, idx 0..=4, 1/3/1"),
    ]:
        obs.append(ob("c11::" + h, "qt", 20,
                      "Segment<OutputIdentifier>::validate on a decoded-shape segment with arbitrary contents never panics",
                      b, unwindset={"memcmp.0": 40}))
    return {
        "obligations": obs,
        "stubs": BASE_STUBS + [
            "E12 alloc::alloc::{alloc,alloc_zeroed,realloc} -> forward to System after recording the largest request (over-allocation ghost)",
            "E4a Blake2b::compress -> cheap deterministic mixer (hash values are irrelevant to the no-panic clause)"],
        "explanation": "Bounded proof: each decoder is run by CBMC on a fully symbolic byte buffer of a concrete length; Kani's built-in checks (panic, bounds, unwrap, overflow, unreachable) are the no-panic clause, the allocation ghost the no-over-allocation clause, unwinding assertions the no-hang clause.",
        "bounds": "buffer lengths and segment shapes are concrete per query and listed per obligation; all contents, counts and positions inside them are symbolic at full width",
        "outside": "buffers longer than the listed lengths; zip extraction; JSON decoders; paths that continue after a debug-only arithmetic wrap (Kani assumes each overflow check after asserting it)",
        "assumptions": ["arithmetic-overflow checks are those of the dev profile; an overflow-only failure is replayed in release and reported only if it panics, hangs or over-allocates there"],
    }


def c04():
    obs = []
    CTN = {0: "AutomatedTesting", 1: "UserTesting", 2: "Testnet", 3: "Mainnet"}
    # DMA retarget, full window
    for ct, tiers in [(3, "qt"), (0, "t"), (2, "t"), (1, "t")]:
        obs.append(ob("c04::dma_total_floor", tiers, 64,
                      "next_dma_difficulty is total (no overflow/underflow/div-by-zero/index panic), >= MIN_DMA_DIFFICULTY, scaling >= MIN_AR_SCALE",
                      "chain %s; full 61-header window: every timestamp (strictly decreasing, gaps < 2^20 s), difficulty in [1,2^48), scaling < 2^24, secondary flag symbolic; height < 2^40" % CTN[ct],
                      env={"VH_CT": ct, "VH_WIN": 61}, tag="_ct%d_w61" % ct, est=450, cap_s=1500 if "q" in tiers else 3600, mem_est_gb=14))
    # short windows (just after genesis): padding path
    for win, tiers in [(1, "qt"), (2, "t"), (7, "t"), (30, "t"), (60, "t")]:
        obs.append(ob("c04::dma_total_floor", tiers, 64,
                      "same, window shorter than required (pre-genesis padding never underflows)",
                      "chain Mainnet; %d real headers" % win,
                      env={"VH_CT": 3, "VH_WIN": win}, tag="_ct3_w%d" % win, est=300, cap_s=1500 if "q" in tiers else 3600, mem_est_gb=12))
    obs.append(ob("c04::dma_deterministic", "qt", 64, "two evaluations of next_dma_difficulty on one window agree",
                  "chain Mainnet; 2 real headers + padding", env={"VH_CT": 3, "VH_WIN": 2}, est=300, cap_s=1500, mem_est_gb=14))
    for ct in (3, 0, 2, 1):
        t = "qt" if ct in (3, 0) else "t"
        obs.append(ob("c04::wtema_total_floor", t, 4, "next_wtema_difficulty total, >= min_wtema, scaling 0",
                      "chain %s; gap in [1,2^30), difficulty in [1,2^50), all other fields symbolic" % CTN[ct],
                      env={"VH_CT": ct}, tag="_ct%d" % ct, est=10))
        obs.append(ob("c04::next_difficulty_dispatch", t, 64, "next_difficulty selects DMA before header version 5 and WTEMA from it on",
                      "chain %s; two-header cursor, height < 2^40" % CTN[ct], env={"VH_CT": ct}, tag="_ct%d" % ct, est=60))
    obs.append(ob("c04::wtema_direction", "t", 4, "slower-than-target block never raises difficulty, faster never lowers it",
                  "Mainnet; gap < 2^16, difficulty < 2^32 (64-bit symbolic division)", env={"VH_CT": 3}, est=1200, cap_s=3600))
    for f in (2, 3, 13):
        obs.append(ob("c04::damp_clamp_f%d" % f, "q", 4, "damp between actual and goal and moves at most 1/f; clamp within [goal/f, goal*f], identity inside",
                      "factor %d; actual, goal < 2^24" % f, est=120, env={"VH_DCW": 24}))
        obs.append(ob("c04::damp_clamp_f%d" % f, "t", 4, "damp between actual and goal and moves at most 1/f; clamp within [goal/f, goal*f], identity inside",
                      "factor %d; actual, goal < 2^40" % f, est=1200, env={"VH_DCW": 40}))
    obs.append(ob("c04::header_version_u16_wrap", "qt", 4, "WITNESS of the recorded finding: header_version leaves 1..=5 once the era counter wraps in u16",
                  "every u64 height, all chain types", est=30, expect_fail=True))
    obs.append(ob("c04::header_version_schedule", "qt", 4, "header_version monotone, in 1..=5, equals the hard-fork schedule; valid_header_version accepts exactly it",
                  "heights < 2^32 (Mainnet/Testnet) / < 196602 (testing chains), all four chain types, every candidate version", est=30))
    obs.append(ob("c04::graph_weight_no_overflow", "qt", 4, "graph_weight total for edge_bits in [base,63], C31 phase-out",
                  "every height, all chain types", est=30))
    obs.append(ob("c04::secondary_pow_ratio_schedule", "qt", 4, "secondary ratio <= 90, monotone, zero after two years", "every height", est=30))
    return {
        "obligations": obs,
        "stubs": BASE_STUBS,
        "explanation": "Bounded proof over consensus::{next_difficulty,next_dma_difficulty,next_wtema_difficulty,secondary_pow_scaling,damp,clamp,header_version,graph_weight,secondary_pow_ratio} and global::difficulty_data_to_vector with a fully symbolic difficulty window.",
        "bounds": "window contents symbolic within the ranges listed per obligation; window length concrete per query",
        "outside": "pipe::validate_header sequencing and DifficultyIter (LMDB); PoW verification (C05); header MMR root; exact-quotient bound of the retarget (needs symbolic 64-bit division by a symbolic divisor)",
        "assumptions": ["window scalings < 2^24: above ~2^26 the u32 cast in secondary_pow_scaling truncates (recorded observation, consensus code)"],
    }


PLAN = {
    "C04": c04(),
    "C07": c07(),
    "C11": c11(),
}
