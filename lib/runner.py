#!/usr/bin/env python3
"""Runner for the Kani-based checks (DESIGN.md §2).

  check <property-id> [--tier quick|thorough] [--only <substring>] [--keep]

For every obligation of the property (lib/plan.py) one `cargo kani` process is run on the
harness crate /verif/harness/vh, which has *path dependencies on /repo*: the goto program that
CBMC decides is regenerated from /repo's current working tree on every run.

exit 0  every obligation SUCCESSFUL (unwinding assertions on, all required covers SATISFIED)
exit 1  a counterexample was found, replayed natively against the real code and reproduced
        -> prints "VIOLATION property=<id> replay=<path>"
exit 2  inconclusive (timeout, OOM, compile error, non-reproducing counterexample ...)
"""
import json
import os
import re
import shutil
import subprocess
import sys
import threading
import time
import fcntl
import random

VERIF = os.path.dirname(os.path.dirname(os.path.abspath(__file__)))
WORK = os.path.join(VERIF, ".work")
CRATE = os.path.join(VERIF, "harness", "vh")
REPO = "/repo"
# Sensitivity experiments only (never used by a registered command): VERIF_REPO=<scratch worktree>
# runs the same checks against a copy of the harness crate whose path dependencies point there,
# with its own work directory, so that seeded changes can be tried without touching /repo.
ALT_REPO = os.environ.get("VERIF_REPO")
if ALT_REPO:
    _tag = re.sub(r"\W+", "_", ALT_REPO.strip("/"))
    WORK = os.path.join(VERIF, ".work", "alt_" + _tag)
    _c = os.path.join(WORK, "vh")
    os.makedirs(WORK, exist_ok=True)
    shutil.rmtree(_c, ignore_errors=True)
    shutil.copytree(CRATE, _c, ignore=shutil.ignore_patterns("target", "Cargo.lock"))
    _t = open(os.path.join(_c, "Cargo.toml")).read().replace('path = "/repo/', 'path = "%s/' % ALT_REPO.rstrip("/"))
    _t = _t.replace('path = "../../stubs/backtrace"', 'path = "%s"' % os.path.join(VERIF, "stubs", "backtrace"))
    open(os.path.join(_c, "Cargo.toml"), "w").write(_t)
    CRATE = _c
    REPO = ALT_REPO
# Development only (never used by a registered command): VERIF_CRATE=<copy of harness/vh> runs the
# obligations on a scratch copy of the harness crate (own work directory, no evidence written) so
# that half-edited harnesses cannot break a check that is running from /verif/harness/vh.
DEV_CRATE = os.environ.get("VERIF_CRATE")
if DEV_CRATE and not ALT_REPO:
    CRATE = os.path.abspath(DEV_CRATE)
    WORK = os.path.join(VERIF, ".work", "dev")
    os.makedirs(WORK, exist_ok=True)
TOTAL_MEM_GB = 52

sys.path.insert(0, os.path.join(VERIF, "lib"))
import plan  # noqa: E402


def log(msg):
    print(msg, flush=True)


def sh(cmd, **kw):
    return subprocess.run(cmd, shell=isinstance(cmd, str), stdout=subprocess.PIPE,
                          stderr=subprocess.STDOUT, text=True, **kw)


def base_env():
    e = dict(os.environ)
    e["CARGO_NET_OFFLINE"] = "true"
    e.pop("RUSTFLAGS", None)
    e.pop("RUSTUP_TOOLCHAIN", None)
    return e


def kani_cmd(ob, target_dir, playback=False):
    # Kani's own --concrete-playback mode regenerates the program with per-byte nondet draws and
    # multiplies time and memory (measured 47 s / 1.4 GB vs 344 s / 19 GB on one query). The
    # runner instead re-runs the *same* cbmc command that Kani logged (--verbose) with --trace on
    # the failed property and reads the nondet draws out of the JSON trace (extract_trace_values).
    # (--verbose would log the cbmc command line but makes kani-compiler 0.68 ICE in print_stats
    # on some harnesses, so the command is reconstructed in trace_failed_property)
    cmd = ["cargo", "kani", "-Z", "stubbing", "-Z", "unstable-options"]
    cmd += ["--harness", ob["harness"], "--exact", "--target-dir", target_dir]
    if ob.get("solver"):
        cmd += ["--solver", ob["solver"]]
    cbmc = ["--unwind", str(ob.get("unwind", 8))]
    if ob.get("unwindset"):
        cbmc += ["--unwindset", ",".join("%s:%d" % kv for kv in ob["unwindset"].items())]
    cmd += ["--cbmc-args"] + cbmc
    return cmd


SCALAR_BYTES = {"u8": 1, "i8": 1, "bool": 1, "u16": 2, "i16": 2, "u32": 4, "i32": 4, "u64": 8, "i64": 8,
                "usize": 8, "isize": 8, "u128": 16, "i128": 16}


def _find_trace(x):
    if isinstance(x, dict):
        if "trace" in x and isinstance(x["trace"], list):
            return x["trace"]
        for v in x.values():
            r = _find_trace(v)
            if r:
                return r
    elif isinstance(x, list):
        for v in x:
            r = _find_trace(v)
            if r:
                return r
    return None


def _val_bytes(v, nbytes):
    b = v.get("binary")
    if b is not None and set(b) <= set("01"):
        n = int(b, 2) if b else 0
        return list(n.to_bytes(max(nbytes, (len(b) + 7) // 8), "little"))[:nbytes]
    d = v.get("data")
    if d in ("true", "TRUE"):
        return [1] + [0] * (nbytes - 1)
    if d in ("false", "FALSE"):
        return [0] * nbytes
    try:
        n = int(str(d).rstrip("ulUL"))
        return list((n % (1 << (8 * nbytes))).to_bytes(nbytes, "little"))
    except Exception:
        return [0] * nbytes


def extract_trace_values(trace):
    """One byte vector per `nd::any::<T>()` call of the harness, in execution order.
    Elements the slicer removed (irrelevant to the failure) are zero."""
    vals = []
    cur = None  # (type string, dict index->bytes / scalar bytes)
    depth_name = None
    for st in trace:
        t = st.get("stepType")
        fn = st.get("function", {})
        name = fn.get("displayName", "") if isinstance(fn, dict) else ""
        if t == "function-call" and name.startswith("nd::any::<"):
            ty = name[len("nd::any::<"):-1]
            cur = {"ty": ty, "elems": {}, "scalar": None}
            depth_name = name
            continue
        if t == "function-return" and cur is not None and name == depth_name:
            ty = cur["ty"]
            m = re.match(r"\[(\w+); (\d+)\]$", ty)
            if m:
                eb = SCALAR_BYTES.get(m.group(1), 1)
                n = int(m.group(2))
                out = []
                for i in range(n):
                    out += cur["elems"].get(i, [0] * eb)
                vals.append(out)
            else:
                nb = SCALAR_BYTES.get(ty, 8)
                vals.append(cur["scalar"] if cur["scalar"] is not None else [0] * nb)
            cur = None
            continue
        if t == "assignment" and cur is not None:
            f = st.get("sourceLocation", {}).get("function", "")
            if not f.startswith("nd::any::<"):
                continue
            lhs = st.get("lhs", "")
            v = st.get("value", {})
            ty = cur["ty"]
            m = re.match(r"\[(\w+); (\d+)\]$", ty)
            mi = re.match(r"var_\d+\[(\d+)\]$", lhs)
            if m and mi:
                cur["elems"][int(mi.group(1))] = _val_bytes(v, SCALAR_BYTES.get(m.group(1), 1))
            elif m and re.match(r"var_\d+$", lhs) and v.get("name") == "array":
                for i, e in enumerate(v.get("elements", [])):
                    ev = e.get("value", e)
                    cur["elems"][i] = _val_bytes(ev, SCALAR_BYTES.get(m.group(1), 1))
            elif not m and re.match(r"var_\d+$", lhs):
                cur["scalar"] = _val_bytes(v, SCALAR_BYTES.get(ty, 8))
    return vals


def trace_failed_property(r, logdir):
    """Re-run the logged cbmc command with --trace on the first failed property."""
    gb = find_goto_binary(r.slot, r.ob["harness"])
    if not gb or not r.failed:
        return None
    # Kani 0.68's cbmc invocation (taken from `cargo kani --verbose`), plus this obligation's bounds
    base = ["cbmc", "--no-malloc-may-fail", "--no-undefined-shift-check", "--no-signed-overflow-check",
            "--nan-check", "--no-self-loops-to-assumptions", "--no-pointer-primitive-check",
            "--object-bits", "16", "--sat-solver", "cadical", "--slice-formula",
            "--unwind", str(r.ob.get("unwind", 8))]
    if r.ob.get("unwindset"):
        base += ["--unwindset", ",".join("%s:%d" % kv for kv in r.ob["unwindset"].items())]
    base += [gb]
    out = []
    for c in r.failed[:3]:
        cmd = list(base)
        cmd += ["--property", c["name"], "--trace", "--json-ui", "--verbosity", "4"]
        name = os.path.basename(r.log)[:-4] + "__trace_" + re.sub(r"\W+", "_", c["name"])[-60:] + ".json"
        path = os.path.join(logdir, name)
        try:
            with open(path, "w") as f:
                subprocess.run(cmd, stdout=f, stderr=subprocess.DEVNULL, timeout=max(300, r.ob["cap_s"]))
            tr = _find_trace(json.load(open(path)))
        except Exception as e:  # noqa
            tr = None
        if tr:
            out.append({"kind": "assertion", "desc": c["description"], "vals": extract_trace_values(tr)})
            try:
                os.remove(path)
            except OSError:
                pass
    return out


RE_SUMMARY = re.compile(r"\*\* (\d+) of (\d+) failed")
RE_COVER = re.compile(r"\*\* (\d+) of (\d+) cover properties satisfied")
RE_TIME = re.compile(r"Verification Time: ([0-9.]+)s")
RE_VARS = re.compile(r"^(\d+) variables, (\d+) clauses", re.M)
RE_VCC = re.compile(r"Generated (\d+) VCC\(s\), (\d+) remaining")
RE_SOLVER = re.compile(r"Runtime Solver: ([0-9.e+-]+)s")
RE_SYMEX = re.compile(r"Runtime Symex: ([0-9.e+-]+)s")


def parse_checks(text):
    """Return list of dicts(name,status,description,location) for every 'Check N:' block."""
    out = []
    for m in re.finditer(
            r"^Check \d+: (.+?)\n\s+- Status: (\S+)\n\s+- Description: \"(.*?)\"\n\s+- Location: (.*?)$",
            text, re.M | re.S):
        out.append({"name": m.group(1), "status": m.group(2),
                    "description": m.group(3), "location": m.group(4).strip()})
    return out


def parse_playback(text):
    """Extract the concrete byte vectors Kani prints for --concrete-playback=print.
    Returns a list of dicts {kind, desc, vals}; kind is 'cover' for cover witnesses."""
    tests = []
    for m in re.finditer(r"/// Check for `(\w+)`: \"(.*?)\"\n(.*?)let concrete_vals: Vec<Vec<u8>> = vec!\[(.*?)\n\s*\];",
                         text, re.S):
        body = m.group(4)
        vals = []
        for v in re.finditer(r"vec!\[([0-9, ]*)\]", body):
            x = v.group(1).strip()
            vals.append([int(y) for y in x.split(",") if y.strip() != ""] if x else [])
        tests.append({"kind": m.group(1), "desc": m.group(2), "vals": vals})
    return tests


def functions_encoded(text):
    fns = set()
    for m in re.finditer(r"function ((?:grin_\w+|vh)::[\w:<>{}#, ]+?) thread", text):
        f = m.group(1)
        if f.startswith("grin_"):
            fns.add(f)
    return sorted(fns)


class Result(object):
    def __init__(self, ob):
        self.ob = ob
        self.status = "NOT-RUN"
        self.detail = ""
        self.checks = 0
        self.failed = []
        self.covers = (0, 0)
        self.unsat_covers = []
        self.wall = 0.0
        self.solver_s = 0.0
        self.symex_s = 0.0
        self.vars = 0
        self.clauses = 0
        self.vccs = 0
        self.log = ""
        self.playback = []
        self.functions = []
        self.stubs = 0
        self.peak_rss_mb = 0


CHILD_GROUPS = set()


def kill_children(*_a):
    for g in list(CHILD_GROUPS):
        try:
            os.killpg(g, 9)
        except Exception:
            pass
    if _a:
        os._exit(2)


def group_rss_kb(pgid):
    try:
        out = subprocess.run(["ps", "-eo", "pgid,rss"], stdout=subprocess.PIPE, text=True).stdout
    except Exception:
        return 0
    tot = 0
    for line in out.splitlines()[1:]:
        a = line.split()
        if len(a) == 2 and a[0] == str(pgid):
            tot += int(a[1])
    return tot


def find_goto_binary(slot, harness):
    import glob
    fn = harness.split("::")[-1]
    pat = os.path.join(slot, "kani", "*", "debug", "build", "vh", "*", "out", "vh-*%d%s.out" % (len(fn), fn))
    cands = [f for f in glob.glob(pat) if not f.endswith(".symtab.out")]
    return max(cands, key=os.path.getmtime) if cands else None


def resolve_loops(ob, slot_dir, logdir, env):
    """Per-loop unwind bounds by *function name pattern* (DESIGN §5): loop ids are mangled names
    that change with the source, so they are looked up in the goto binary of this very build:
    a first pass builds the binary (cbmc runs with --unwind 1 and is discarded), `cbmc
    --show-loops` lists id + function of every loop, and the plan's patterns select the bounds."""
    name = ob["harness"].replace("::", "__") + ob.get("tag", "")
    ob1 = dict(ob)
    ob1["unwind"] = 1
    ob1["unwindset"] = {}
    cmd = kani_cmd(ob1, slot_dir)
    with open(os.path.join(logdir, name + "__loops.log"), "w") as f:
        try:
            subprocess.run(["timeout", "-k", "5", "600"] + cmd, cwd=CRATE, env=env, stdout=f,
                           stderr=subprocess.STDOUT, start_new_session=True)
        except Exception:
            pass
    gb = find_goto_binary(slot_dir, ob["harness"])
    if not gb:
        return None
    out = subprocess.run(["cbmc", "--show-loops", gb], stdout=subprocess.PIPE, stderr=subprocess.DEVNULL,
                         text=True).stdout
    res = dict(ob.get("unwindset", {}))
    for m in re.finditer(r"^Loop (\S+):\n\s+file .*? function (.*)$", out, re.M):
        lid, fn = m.group(1), m.group(2)
        for pat, bound in ob["loops"].items():
            # "name#k": only the k-th loop of the functions matching name
            name, _, num = pat.partition("#")
            if num and not lid.endswith("." + num):
                continue
            if name in fn or name in lid:
                res[lid] = max(bound, res.get(lid, 0))
    # recursion bounds: `--unwindset <function id>:<n>` bounds the recursion depth of that function
    # (CBMC checks it with a recursion unwinding assertion); ids are mangled, looked up by pretty name
    if ob.get("recurse"):
        fl = subprocess.run(["goto-instrument", "--list-goto-functions", gb], stdout=subprocess.PIPE,
                            stderr=subprocess.DEVNULL, text=True).stdout
        for m in re.finditer(r"^(.*?) /\* (\S+) \*/$", fl, re.M):
            pretty, mangled = m.group(1), m.group(2)
            for pat, bound in ob["recurse"].items():
                if pretty == pat or pretty.endswith("::" + pat):
                    res[mangled] = bound
    return res


def run_obligation(ob, slot_dir, logdir, playback=False):
    r = Result(ob)
    r.slot = slot_dir
    name = ob["harness"].replace("::", "__") + ob.get("tag", "") + ("__playback" if playback else "")
    r.log = os.path.join(logdir, name + ".log")
    env = base_env()
    for k, v in ob.get("env", {}).items():
        env[k] = str(v)
    if ob.get("loops") or ob.get("recurse"):
        ob.setdefault("loops", {})
        us = resolve_loops(ob, slot_dir, logdir, env)
        if us is not None:
            ob["unwindset"] = us
    cmd = kani_cmd(ob, slot_dir, playback)
    shell = "exec timeout -k 10 %d %s" % (ob["cap_s"], " ".join("'%s'" % c for c in cmd))
    t0 = time.time()
    peak = 0
    killed_mem = False
    with open(r.log, "w") as f:
        f.write("# " + shell + "\n")
        f.flush()
        p = subprocess.Popen(["bash", "-c", shell], cwd=CRATE, env=env, stdout=f,
                             stderr=subprocess.STDOUT, start_new_session=True)
        CHILD_GROUPS.add(p.pid)
        # memory watchdog: RSS of the whole process group, hard cap per obligation
        while True:
            try:
                p.wait(timeout=2)
                break
            except subprocess.TimeoutExpired:
                pass
            rss = group_rss_kb(p.pid)
            peak = max(peak, rss)
            ob["_rss_now"] = rss
            if rss > ob["mem_gb"] * 1024 * 1024:
                killed_mem = True
                try:
                    os.killpg(p.pid, 9)
                except Exception:
                    pass
    ob["_rss_now"] = 0
    try:
        os.killpg(p.pid, 9)  # stray grandchildren
    except Exception:
        pass
    CHILD_GROUPS.discard(p.pid)
    r.peak_rss_mb = peak // 1024
    r.wall = time.time() - t0
    text = open(r.log, errors="replace").read()
    r.stubs = len(re.findall(r"^\s+- Stub: ", text, re.M))
    m = RE_SUMMARY.search(text)
    if m:
        r.checks = int(m.group(2))
    m = RE_COVER.search(text)
    if m:
        r.covers = (int(m.group(1)), int(m.group(2)))
    r.solver_s = sum(float(x) for x in RE_SOLVER.findall(text))
    r.symex_s = sum(float(x) for x in RE_SYMEX.findall(text))
    mv = RE_VARS.findall(text)
    if mv:
        r.vars, r.clauses = int(mv[-1][0]), int(mv[-1][1])
    m = RE_VCC.search(text)
    if m:
        r.vccs = int(m.group(1))
    r.functions = functions_encoded(text)
    checks = parse_checks(text)
    r.failed = [c for c in checks if c["status"] == "FAILURE"]
    r.unsat_covers = [c for c in checks if c["status"] in ("UNSATISFIABLE", "UNREACHABLE")
                      and ".cover" in c["name"]]
    r.playback = parse_playback(text)
    if killed_mem:
        r.status = "OUT-OF-MEMORY"
        r.detail = "RSS above the %d GB cap" % ob["mem_gb"]
    elif p.returncode == 124 or p.returncode == 137:
        r.status = "TIMEOUT"
        r.detail = "cap %ds" % ob["cap_s"]
    elif "error: could not compile" in text or "error[E" in text:
        r.status = "COMPILE-ERROR"
        mm = re.search(r"^error.*$", text, re.M)
        r.detail = mm.group(0) if mm else ""
    elif "VERIFICATION:- SUCCESSFUL" in text:
        # vacuity: the end of the harness must be reachable, plus the covers the plan requires
        unsat = [c["description"] for c in r.unsat_covers]
        need = ["reach_end"] + list(ob.get("need_covers", []))
        missing = [n for n in need if n in unsat]
        if ob.get("all_covers", True) and ob.get("allow_unsat") is not None:
            missing += [u for u in unsat if u not in ob["allow_unsat"] and u not in missing]
        elif ob.get("all_covers", True) and ob.get("allow_unsat") is None:
            missing += [u for u in unsat if u not in missing]
        if r.covers[1] == 0:
            missing.append("no cover statement in harness")
        if missing:
            r.status = "VACUOUS"
            r.detail = "covers not satisfied: " + "; ".join(missing)
        else:
            r.status = "SUCCESSFUL"
    elif "VERIFICATION:- FAILED" in text:
        unw = [c for c in r.failed if "unwinding assertion" in c["description"]]
        real = [c for c in r.failed if "unwinding assertion" not in c["description"]]
        if "Status: ERROR" in text or "std::bad_alloc" in text or "Out of memory" in text:
            r.status = "ERROR"
            r.detail = "cbmc error / out of memory"
        elif real:
            r.status = "FAILED"
            r.failed = real
        elif unw:
            r.status = "UNWIND"
            r.detail = "; ".join(sorted(set(c["location"] for c in unw)))[:300]
        else:
            r.status = "ERROR"
            r.detail = "FAILED without failed checks (memory/timeout inside cbmc?)"
    else:
        r.status = "ERROR"
        mm = re.search(r"^(error.*|.*panicked at.*|.*internal compiler error.*)$", text, re.M)
        r.detail = (mm.group(0) if mm else "no verdict in log (rc=%d)" % p.returncode)[:300]
    return r


# ---------------------------------------------------------------- build management

def prepare_crate():
    shutil.copyfile(os.path.join(REPO, "Cargo.lock"), os.path.join(CRATE, "Cargo.lock"))


def ensure_base(first_ob, logdir):
    """Build dependencies once in the base target dir (serialised across concurrent checks)."""
    base = os.path.join(WORK, "tgt", "base")
    os.makedirs(base, exist_ok=True)
    lock = open(os.path.join(WORK, "tgt", "base.lock"), "w")
    fcntl.flock(lock, fcntl.LOCK_EX)
    return base, lock


def clone_slot(base, slot):
    if os.path.isdir(slot):
        shutil.rmtree(slot, ignore_errors=True)
    subprocess.run(["cp", "-a", base, slot], check=False)


# ---------------------------------------------------------------- native replay

def build_replay(profile, logdir, env_extra=None):
    """Build bin/replay natively (real code, no stubs). Returns path or None.
    The obligation's VH_* parameters are compile-time constants of the harness (option_env!), so
    they are passed to the build as well (cargo rebuilds the harness crate when they change)."""
    tdir = os.path.join(WORK, "tgt", "native")
    cmd = ["cargo", "build", "--offline", "--bin", "replay", "--target-dir", tdir]
    if profile == "release":
        cmd.append("--release")
    env = base_env()
    env["RUSTFLAGS"] = "--cfg grin_verif"  # the cfg-guarded hooks of /repo (MANIFEST.hooks)
    if env_extra:
        env.update({k: str(v) for k, v in env_extra.items()})
    with open(os.path.join(logdir, "native_build_%s.log" % profile), "w") as f:
        p = subprocess.run(cmd, cwd=CRATE, env=env, stdout=f, stderr=subprocess.STDOUT)
    if p.returncode != 0:
        return None
    return os.path.join(tdir, profile if profile == "release" else "debug", "replay")


def native_replay(harness, vals, profile, logdir, out_path, env_extra=None):
    """Run the counterexample natively. Returns (reproduced: bool|None, text)."""
    exe = build_replay(profile, logdir, env_extra)
    if exe is None:
        return None, "native replay build failed (%s)" % profile
    with open(out_path, "w") as f:
        for v in vals:
            f.write(" ".join(str(b) for b in v) + "\n")
    env = base_env()
    env["RUST_BACKTRACE"] = "0"
    if env_extra:
        env.update({k: str(v) for k, v in env_extra.items()})
    shell = "ulimit -v %d; exec timeout -k 2 60 '%s' '%s' '%s'" % (4 * 1024 * 1024, exe, harness, out_path)
    p = subprocess.run(["bash", "-c", shell], stdout=subprocess.PIPE, stderr=subprocess.STDOUT,
                       text=True, env=env)
    txt = p.stdout[-3000:]
    if p.returncode == 0:
        return False, txt
    if p.returncode == 3:
        return None, "replay mismatch: " + txt
    return True, "exit %d\n%s" % (p.returncode, txt)


# ---------------------------------------------------------------- main

def main(argv):
    import signal
    import atexit
    atexit.register(kill_children)
    signal.signal(signal.SIGTERM, kill_children)
    signal.signal(signal.SIGINT, kill_children)
    if len(argv) < 2:
        print(__doc__)
        return 2
    pid = argv[1]
    tier = os.environ.get("VERIF_TIER", "quick")
    only = None
    i = 2
    while i < len(argv):
        if argv[i] == "--tier":
            tier = argv[i + 1]
            i += 2
        elif argv[i] == "--only":
            only = argv[i + 1]
            i += 2
        else:
            i += 1
    if tier not in ("quick", "thorough", "attempt"):
        tier = "quick"
    try:
        seed = int(os.environ.get("VERIF_SEED", "0"))
    except ValueError:
        seed = 0
    t0 = time.time()
    spec = plan.PLAN.get(pid)
    if spec is None:
        log("no check for property %s" % pid)
        return 2
    obs = [dict(o) for o in spec["obligations"] if tier in o["tiers"]]
    if only:
        obs = [o for o in obs if only in (o["harness"] + o.get("tag", ""))]
        os.environ["VERIF_ONLY"] = only
    for o in obs:
        caps = plan.TIER_CAPS[tier]
        o.setdefault("cap_s", caps["cap_s"])
        o.setdefault("mem_gb", caps["mem_gb"])
        if tier == "quick":
            o["cap_s"] = min(o["cap_s"], caps["cap_s"])
    rnd = random.Random(seed)
    # the seed only permutes scheduling order (longest first within a stable shuffle)
    rnd.shuffle(obs)
    obs.sort(key=lambda o: -o.get("est_s", 60))

    os.makedirs(os.path.join(WORK, "tgt"), exist_ok=True)
    inst = open(os.path.join(WORK, "tgt", "%s_%s%s.instance.lock" % (pid, tier, ("_only_" + re.sub(r"\W+", "_", only)) if only else "")), "w")
    try:
        fcntl.flock(inst, fcntl.LOCK_EX | fcntl.LOCK_NB)
    except OSError:
        log("another run of %s/%s is in progress; waiting for it" % (pid, tier))
        fcntl.flock(inst, fcntl.LOCK_EX)
    logdir = os.path.join(WORK, "logs", pid + "_" + tier + ("_only_" + re.sub(r"\W+", "_", only) if only else ""))
    shutil.rmtree(logdir, ignore_errors=True)
    os.makedirs(logdir, exist_ok=True)
    os.makedirs(os.path.join(WORK, "tgt"), exist_ok=True)
    prepare_crate()

    # ---- known findings
    kf_path = os.path.join(VERIF, "known_findings.json")
    known = []
    if os.path.exists(kf_path):
        known = [k for k in json.load(open(kf_path)).get("findings", []) if k.get("property") == pid]

    # ---- base build + slots
    base, lock = ensure_base(obs[0] if obs else None, logdir)
    results = []
    try:
        if not obs:
            log("no obligations for %s in tier %s" % (pid, tier))
            return 2
        # build deps + leaf in base by running the first (cheapest) obligation's compile only
        # a harness no obligation uses: every obligation then compiles the leaf crate in its own slot
        bcmd = ["cargo", "kani", "-Z", "stubbing", "-Z", "unstable-options", "--only-codegen",
                "--harness", "c00::noop", "--exact", "--target-dir", base]
        tb = time.time()
        with open(os.path.join(logdir, "base_build.log"), "w") as f:
            pb = subprocess.run(bcmd, cwd=CRATE, env=base_env(), stdout=f, stderr=subprocess.STDOUT)
        build_s = time.time() - tb
        if pb.returncode != 0:
            txt = open(os.path.join(logdir, "base_build.log"), errors="replace").read()
            errs = re.findall(r"^error.*$", txt, re.M)[:5]
            log("INCONCLUSIVE property=%s harness crate does not build against the current tree: %s"
                % (pid, " | ".join(errs)))
            write_evidence(pid, tier, seed, spec, [], time.time() - t0, 0,
                           note="harness crate failed to compile against /repo: " + " | ".join(errs))
            return 2
        par = max(1, min(len(obs), plan.MAX_PAR))
        slots = []
        for k in range(par):
            s = os.path.join(WORK, "tgt", "%s_%s%s_slot%d" % (pid, tier, ("_only_" + re.sub(r"\W+", "_", only)) if only else "", k))
            clone_slot(base, s)
            slots.append(s)
    finally:
        fcntl.flock(lock, fcntl.LOCK_UN)
        lock.close()

    log("property %s tier %s: %d obligations, %d in parallel (base build %.0fs)"
        % (pid, tier, len(obs), par, build_s))
    q = list(obs)
    qlock = threading.Lock()

    running = []

    def mem_free_gb():
        try:
            for line in open("/proc/meminfo"):
                if line.startswith("MemAvailable:"):
                    return int(line.split()[1]) / 1024.0 / 1024.0
        except Exception:
            pass
        return 8.0

    def worker(slot):
        while True:
            ob = None
            with qlock:
                if not q:
                    return
                # memory-aware admission: estimated need of the next job must fit into what is
                # available now minus what running jobs are still expected to grow by
                need = q[0].get("mem_est_gb", 5)
                reserve = sum(max(0.0, o.get("mem_est_gb", 5) - o.get("_rss_now", 0) / 1048576.0) for o in running)
                if not running or mem_free_gb() - reserve - 8 >= need:
                    ob = q.pop(0)
                    running.append(ob)
            if ob is None:
                time.sleep(3)
                continue
            r = run_obligation(ob, slot, logdir)
            if r.status == "FAILED":
                pb = trace_failed_property(r, logdir)
                if pb:
                    r.playback = pb
            with qlock:
                running.remove(ob)
                results.append(r)
                log("  [%s] %-55s %7.1fs rss=%dMB checks=%d covers=%d/%d %s"
                    % (r.status, ob["harness"] + ob.get("tag", ""), r.wall, r.peak_rss_mb, r.checks, r.covers[0], r.covers[1], r.detail))

    threads = [threading.Thread(target=worker, args=(s,)) for s in slots]
    for t in threads:
        t.start()
    for t in threads:
        t.join()
    if not os.environ.get("VERIF_KEEP"):
        for s in slots:
            shutil.rmtree(s, ignore_errors=True)

    # ---- verdicts
    violations = 0
    inconclusive = 0
    known_hits = []
    replay_dir = os.path.join(WORK if (ALT_REPO or DEV_CRATE) else VERIF, "replays", pid)
    for r in results:
        if r.status == "SUCCESSFUL":
            continue
        if r.status != "FAILED":
            if not r.ob.get("expect_fail"):
                inconclusive += 1
            continue
        # counterexample: replay natively
        verdict = handle_failure(pid, r, known, replay_dir, logdir, known_hits)
        if verdict == "violation":
            violations += 1
        elif verdict == "known":
            pass
        else:
            inconclusive += 1
    for k in known_hits:
        log("KNOWN-FINDING: property=%s %s" % (pid, k))
    wall = time.time() - t0
    write_evidence(pid, tier, seed, spec, results, wall, violations)
    if violations:
        return 1
    if inconclusive:
        log("INCONCLUSIVE property=%s %d obligation(s) not discharged" % (pid, inconclusive))
        return 2
    log("OK property=%s tier=%s obligations=%d wall=%.0fs" % (pid, tier, len(results), wall))
    return 0


def match_known(known, r, c):
    for k in known:
        if k.get("status") == "fixed":
            continue  # a fixed entry suppresses nothing
        if k.get("harness") and k["harness"] != r.ob["harness"]:
            continue
        pat = k.get("match", "")
        if pat and (pat in c["description"] or pat in c["location"]):
            return k
    return None


def handle_failure(pid, r, known, replay_dir, logdir, known_hits):
    os.makedirs(replay_dir, exist_ok=True)
    name = r.ob["harness"].replace("::", "__") + r.ob.get("tag", "")
    desc = "; ".join("%s @ %s" % (c["description"], c["location"]) for c in r.failed[:4])
    mode = r.ob.get("replay", "native")
    fails = [t for t in r.playback if t["kind"] != "cover"]
    vals = fails[0]["vals"] if fails else None
    path = os.path.join(replay_dir, name + ".vals")
    report = os.path.join(replay_dir, name + ".txt")
    reproduced = None
    txt = ""
    if vals is None:
        txt = "no concrete playback values in the log"
    elif mode == "native":
        profiles = r.ob.get("replay_profiles", ["release", "debug"])
        outs = []
        rep_any = False
        for prof in profiles:
            rep, t = native_replay(r.ob["harness"], vals, prof, logdir, path, r.ob.get("env"))
            outs.append("--- %s: %s\n%s" % (prof, rep, t))
            if rep:
                rep_any = True
            elif rep is None and not rep_any:
                reproduced = None
        reproduced = True if rep_any else (False if all("False" in o.split("\n")[0] for o in outs) else None)
        txt = "\n".join(outs)
    else:
        # model-level counterexample (environment model has no native counterpart, DESIGN §2.3):
        # the concrete values are written out; the Kani run itself is the deterministic replay.
        with open(path, "w") as f:
            for v in vals:
                f.write(" ".join(str(b) for b in v) + "\n")
        reproduced = True
        txt = "model-level counterexample (harness uses an environment model); re-run: " + \
              " ".join(kani_cmd(r.ob, "/tmp/replay_tgt"))
    with open(report, "w") as f:
        f.write("property: %s\nharness: %s\nfailed checks: %s\nkani log: %s\n" % (pid, r.ob["harness"], desc, r.log))
        f.write("replay: cd %s && cargo build --offline --bin replay [--release] && target/.../replay %s %s\n"
                % (CRATE, r.ob["harness"], path))
        f.write(txt + "\n")
    # known finding?
    all_known = True
    for c in r.failed:
        k = match_known(known, r, c)
        if k is None:
            all_known = False
        else:
            known_hits.append(k.get("what", k.get("match")))
    if reproduced and all_known:
        return "known"
    if reproduced:
        log("VIOLATION property=%s replay=%s" % (pid, report))
        log("  harness %s: %s" % (r.ob["harness"], desc))
        return "violation"
    if reproduced is False:
        log("NON-REPRODUCING property=%s harness=%s (%s) — counterexample did not fail natively; see %s"
            % (pid, r.ob["harness"], desc, report))
    else:
        log("REPLAY-INCONCLUSIVE property=%s harness=%s (%s): %s" % (pid, r.ob["harness"], desc, txt[:300]))
    return "inconclusive"


def write_evidence(pid, tier, seed, spec, results, wall, violations, note=None):
    if ALT_REPO or DEV_CRATE or tier == "attempt" or os.environ.get("VERIF_ONLY"):
        return  # experiments (other tree, attempt tier, --only subsets) never touch the committed evidence
    os.makedirs(os.path.join(VERIF, "evidence"), exist_ok=True)
    witnesses = [r for r in results if r.ob.get("expect_fail")]
    results = [r for r in results if not r.ob.get("expect_fail")]
    discharged = [r for r in results if r.status == "SUCCESSFUL"]
    samples = []
    obl = []
    fn_all = set()
    for r in results:
        fn_all.update(r.functions)
        obl.append({
            "harness": r.ob["harness"],
            "claim": r.ob.get("claim", ""),
            "bounds": r.ob.get("bounds", ""),
            "status": r.status,
            "detail": r.detail,
            "unwind": r.ob.get("unwind"),
            "unwindset": r.ob.get("unwindset", {}),
            "env": r.ob.get("env", {}),
            "checks_in_query": r.checks,
            "covers_satisfied": r.covers[0],
            "covers_total": r.covers[1],
            "stubs_applied": r.stubs,
            "vccs": r.vccs,
            "sat_variables": r.vars,
            "sat_clauses": r.clauses,
            "symex_s": round(r.symex_s, 2),
            "solver_s": round(r.solver_s, 2),
            "wall_s": round(r.wall, 1),
            "peak_rss_mb": r.peak_rss_mb,
            "functions_encoded": r.functions[:60],
        })
        # cover witnesses produced by the solver are real inputs the query reached
        for t in [t for t in r.playback if t["kind"] == "cover"][:2]:
            samples.append({"harness": r.ob["harness"], "cover": t["desc"], "solver_witness_bytes": t["vals"][:12]})
    if not samples:
        samples = [{"harness": r.ob["harness"], "claim": r.ob.get("claim", "")} for r in results[:5]] or [
            {"note": note or "nothing ran"}]
    ev = {
        "property_id": pid,
        "tier": tier,
        "seed": seed,
        "level": "proof",
        "coverage": {
            "obligations": len(results),
            "discharged": len(discharged),
            "checker_cmd": "cd /verif/harness/vh && " + (" ".join(kani_cmd(results[0].ob, "<target-dir>")) if results else "cargo kani ..."),
            "trusted_base": ["rustc (Kani's pinned nightly) -> kani-compiler 0.68 -> CBMC 6.11 -> CaDiCaL",
                             "unwinding assertions ON for every loop (a too-small bound is reported, never truncated silently)"]
                            + spec.get("stubs", []),
            "explanation": spec.get("explanation", ""),
            "bounded": True,
            "bounds_statement": spec.get("bounds", ""),
            "outside_the_claim": spec.get("outside", ""),
            "functions_encoded": sorted(fn_all)[:200],
            "total_checks_decided": sum(r.checks for r in discharged),
            "total_covers_satisfied": sum(r.covers[0] for r in results),
            "solver_s_total": round(sum(r.solver_s for r in results), 1),
            "per_obligation": obl,
            "finding_witnesses": [{"harness": r.ob["harness"], "status": r.status, "claim": r.ob.get("claim", ""),
                                   "note": "expected to FAIL while the recorded finding exists"} for r in witnesses],
            "samples": samples[:12],
            "exhaustive": False,
        },
        "assumptions": spec.get("assumptions", []),
        "wall_s": round(wall, 1),
        "violations": violations,
    }
    if note:
        ev["coverage"]["note"] = note
    with open(os.path.join(VERIF, "evidence", pid + ".json"), "w") as f:
        json.dump(ev, f, indent=1)


if __name__ == "__main__":
    sys.exit(main(sys.argv))
