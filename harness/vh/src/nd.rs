//! Non-deterministic inputs: symbolic under Kani, popped from a counterexample natively.

#[cfg(not(kani))]
use std::cell::RefCell;

/// Types a harness may draw. One draw == one `kani::any()` == one byte vector in Kani's
/// concrete-playback output (little-endian), so the native replay pops them in program order.
pub trait Nd: Sized {
	fn from_le(b: &[u8]) -> Self;
	const SIZE: usize;
}

macro_rules! nd_int {
	($($t:ty),*) => {$(
		impl Nd for $t {
			const SIZE: usize = core::mem::size_of::<$t>();
			fn from_le(b: &[u8]) -> Self {
				let mut a = [0u8; core::mem::size_of::<$t>()];
				a.copy_from_slice(&b[..core::mem::size_of::<$t>()]);
				<$t>::from_le_bytes(a)
			}
		}
	)*};
}
nd_int!(u8, u16, u32, u64, u128, usize, i8, i16, i32, i64);

impl Nd for bool {
	const SIZE: usize = 1;
	fn from_le(b: &[u8]) -> Self {
		b[0] & 1 == 1
	}
}

impl<const N: usize> Nd for [u8; N] {
	const SIZE: usize = N;
	fn from_le(b: &[u8]) -> Self {
		let mut a = [0u8; N];
		a.copy_from_slice(&b[..N]);
		a
	}
}

#[cfg(kani)]
#[inline(always)]
pub fn any<T: Nd + kani::Arbitrary>() -> T {
	kani::any()
}

#[cfg(not(kani))]
thread_local! {
	static VALS: RefCell<(Vec<Vec<u8>>, usize)> = RefCell::new((vec![], 0));
}

/// Install the concrete values of a counterexample (native replay only).
#[cfg(not(kani))]
pub fn install(vals: Vec<Vec<u8>>) {
	VALS.with(|v| *v.borrow_mut() = (vals, 0));
}

#[cfg(not(kani))]
pub fn any<T: Nd>() -> T {
	VALS.with(|v| {
		let mut v = v.borrow_mut();
		let i = v.1;
		if i >= v.0.len() {
			eprintln!("REPLAY-MISMATCH: ran out of concrete values at draw {}", i);
			std::process::exit(3);
		}
		if v.0[i].len() != T::SIZE {
			eprintln!(
				"REPLAY-MISMATCH: draw {} has {} bytes, expected {}",
				i,
				v.0[i].len(),
				T::SIZE
			);
			std::process::exit(3);
		}
		v.1 += 1;
		T::from_le(&v.0[i])
	})
}

#[cfg(kani)]
#[inline(always)]
pub fn assume(c: bool) {
	kani::assume(c)
}

/// Natively a violated assumption means the counterexample does not apply to the real run.
#[cfg(not(kani))]
pub fn assume(c: bool) {
	if !c {
		eprintln!("REPLAY-MISMATCH: assumption violated");
		std::process::exit(3);
	}
}

/// Draw a value in `lo..=hi`.
#[cfg(kani)]
pub fn range_u64(lo: u64, hi: u64) -> u64 {
	let v: u64 = any();
	assume(v >= lo && v <= hi);
	v
}
#[cfg(not(kani))]
pub fn range_u64(lo: u64, hi: u64) -> u64 {
	let v: u64 = any();
	assume(v >= lo && v <= hi);
	v
}

/// `cover!(cond, "label")`: vacuity / case witness. Native: no-op.
#[macro_export]
macro_rules! cover {
	($c:expr, $l:expr) => {{
		#[cfg(kani)]
		kani::cover!($c, $l);
		#[cfg(not(kani))]
		{
			let _ = $c;
		}
	}};
}

/// `check!(cond, "label")`: the property assertion.
#[macro_export]
macro_rules! check {
	($c:expr, $l:expr) => {{
		#[cfg(kani)]
		kani::assert($c, $l);
		#[cfg(not(kani))]
		{
			if !($c) {
				panic!("PROPERTY-ASSERTION-FAILED: {}", $l);
			}
		}
	}};
}

/// Mark the end of a harness as reachable (vacuity witness, see DESIGN.md §2.4).
#[macro_export]
macro_rules! reach_end {
	() => {
		$crate::cover!(true, "reach_end");
	};
}
