//! C19 — frame header limits (clause 4) and typed reads over a generic `Read`.
base_uses!();
use crate::{env, nd};
use grin_core::ser::{self, DeserializationMode, ProtocolVersion};
use grin_p2p::msg::{self, MsgHeaderWrapper, Type};
use grin_p2p::Error as P2pError;

/// the per-type limits of the protocol, restated (bytes, before the x4 allowance)
fn limit(t: u8, max_block_size: u64) -> Option<u64> {
	Some(match t {
		0 => 0,
		1 => 128,
		2 => 88,
		3 => 16,
		4 => 16,
		5 => 4,
		6 => 4 + (1 + 16 + 2) * 256,
		7 => 1 + 32 * 20,
		8 => 365,
		9 => 2 + 365 * 512,
		10 => 32,
		11 => max_block_size,
		12 => 32,
		13 => max_block_size / 10,
		14 => max_block_size,
		15 => max_block_size,
		16 => 40,
		17 => 64,
		18 => 64,
		19 => 32,
		20 => 32,
		21 | 23 | 25 | 27 => 41,
		22 | 24 | 26 | 28 => 2 * max_block_size,
		_ => return None,
	})
}

proof! {
	[alloc] fn frame_header_limits() {
		let ct = env::any_chain_type();
		env::set_chain_type(ct);
		let b: [u8; 11] = nd::any();
		env::alloc_limit(1024);
		let r = ser::deserialize::<MsgHeaderWrapper, _>(&mut &b[..], ProtocolVersion(1), DeserializationMode::default());
		let magic: [u8; 2] = match ct {
			grin_core::global::ChainTypes::Testnet => [83, 59],
			grin_core::global::ChainTypes::Mainnet => [97, 61],
			_ => [73, 43],
		};
		let mbs = grin_core::global::max_block_weight() / 21 * 708;
		let len = u64::from_be_bytes([b[3], b[4], b[5], b[6], b[7], b[8], b[9], b[10]]);
		match &r {
			Ok(MsgHeaderWrapper::Known(h)) => {
				check!(b[0] == magic[0] && b[1] == magic[1], "accepted frame carries this network's magic");
				check!(h.msg_type as u8 == b[2] && h.msg_len == len, "header fields are the wire fields");
				let lim = limit(b[2], mbs);
				check!(lim.is_some(), "a known type is one of the protocol's types");
				check!(len <= 4 * lim.unwrap(), "announced length within (4x) the limit of its type");
			}
			Ok(MsgHeaderWrapper::Unknown(l, t)) => {
				check!(b[0] == magic[0] && b[1] == magic[1], "accepted frame carries this network's magic");
				check!(limit(*t, mbs).is_none() && *t == b[2], "unknown means not a protocol type");
				check!(*l == len && len <= 4 * mbs, "unknown types are bounded by the default limit");
			}
			Err(_) => {
				let lim = limit(b[2], mbs).unwrap_or(mbs);
				check!(b[0] != magic[0] || b[1] != magic[1] || len > 4 * lim, "a frame is refused only for wrong magic or an over-limit length");
			}
		}
		cover!(matches!(r, Ok(MsgHeaderWrapper::Unknown(_, _))), "unknown type accepted for skipping");
		cover!(r.is_err() && b[0] == magic[0] && b[1] == magic[1], "right magic, over-limit length refused");
		core::mem::forget(r);
	}
}

proof! {
	[alloc] fn read_message_wrong_type_refused() {
		// read_message::<Ping> on a frame of another known type with an empty body: BadMessage,
		// and a wrong-magic frame is refused before any body byte is consumed
		env::set_chain_type(grin_core::global::ChainTypes::Mainnet);
		let b: [u8; 11] = nd::any();
		let mut src: &[u8] = &b[..];
		env::alloc_limit(64 * 11 + 128 * 1024);
		let r = msg::read_message::<msg::Ping, _>(&mut src, ProtocolVersion(1), Type::Ping);
		if b[0] != 97 || b[1] != 61 {
			check!(r.is_err(), "wrong magic refused");
		}
		if let Err(P2pError::BadMessage) = &r {
			cover!(true, "frame of another type refused as a bad message");
		}
		check!(r.is_err(), "an 11-byte stream never yields a Ping (its body is 16 bytes)");
		core::mem::forget(r);
	}
}

proof! {
	[alloc] fn frame_header_writer_matches_reader() {
		// every frame header the reader accepts is reproduced byte for byte by the writer
		// (MsgHeader::write): magic, type and length are written where the reader looks for them
		let ct = env::any_chain_type();
		env::set_chain_type(ct);
		let b: [u8; 11] = nd::any();
		env::alloc_limit(1024);
		let r = ser::deserialize::<MsgHeaderWrapper, _>(&mut &b[..], ProtocolVersion(1), DeserializationMode::default());
		if let Ok(MsgHeaderWrapper::Known(h)) = &r {
			let mut out = [0u8; 11];
			let left = {
				let mut sink: &mut [u8] = &mut out[..];
				ser::serialize(&mut sink, ProtocolVersion(1), h).expect("serialises");
				sink.len()
			};
			check!(left == 0, "a frame header is 11 bytes");
			let i: usize = nd::any();
			nd::assume(i < 11);
			check!(out[i] == b[i], "the writer reproduces the accepted header");
			// and a header built for the same type and length is the same header
			let h2 = msg::MsgHeader::new(h.msg_type, h.msg_len);
			let mut out2 = [0u8; 11];
			{
				let mut sink: &mut [u8] = &mut out2[..];
				ser::serialize(&mut sink, ProtocolVersion(1), &h2).expect("serialises");
			}
			check!(out2[i] == b[i], "MsgHeader::new stamps this network's magic");
			cover!(true, "some header accepted");
		}
		core::mem::forget(r);
	}
}

pub const HARNESSES: &[(&str, fn())] = &[
	("c19::frame_header_writer_matches_reader", frame_header_writer_matches_reader),
	("c19::frame_header_limits", frame_header_limits),
	("c19::read_message_wrong_type_refused", read_message_wrong_type_refused),
];
