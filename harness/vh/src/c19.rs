//! C19 — frame header limits (clause 4) and typed reads over a generic `Read`.
base_uses!();
use crate::{env, nd};
use grin_core::ser::{self, DeserializationMode, ProtocolVersion};
use grin_p2p::msg::{self, MsgHeaderWrapper, Type};
use grin_p2p::Error as P2pError;

/// the per-type limits of the protocol, restated (bytes, before the x4 allowance)
fn limit(t: u8, max_block_size: u64) -> Option<u64> {
	Some(match t {
		0 => 0,
		1 => 128,
		2 => 88,
		3 => 16,
		4 => 16,
		5 => 4,
		6 => 4 + (1 + 16 + 2) * 256,
		7 => 1 + 32 * 20,
		8 => 365,
		9 => 2 + 365 * 512,
		10 => 32,
		11 => max_block_size,
		12 => 32,
		13 => max_block_size / 10,
		14 => max_block_size,
		15 => max_block_size,
		16 => 40,
		17 => 64,
		18 => 64,
		19 => 32,
		20 => 32,
		21 | 23 | 25 | 27 => 41,
		22 | 24 | 26 | 28 => 2 * max_block_size,
		_ => return None,
	})
}

proof! {
	[alloc] fn frame_header_limits() {
		let ct = env::any_chain_type();
		env::set_chain_type(ct);
		let b: [u8; 11] = nd::any();
		env::alloc_limit(1024);
		let r = ser::deserialize::<MsgHeaderWrapper, _>(&mut &b[..], ProtocolVersion(1), DeserializationMode::default());
		let magic: [u8; 2] = match ct {
			grin_core::global::ChainTypes::Testnet => [83, 59],
			grin_core::global::ChainTypes::Mainnet => [97, 61],
			_ => [73, 43],
		};
		let mbs = grin_core::global::max_block_weight() / 21 * 708;
		let len = u64::from_be_bytes([b[3], b[4], b[5], b[6], b[7], b[8], b[9], b[10]]);
		match &r {
			Ok(MsgHeaderWrapper::Known(h)) => {
				check!(b[0] == magic[0] && b[1] == magic[1], "accepted frame carries this network's magic");
				check!(h.msg_type as u8 == b[2] && h.msg_len == len, "header fields are the wire fields");
				let lim = limit(b[2], mbs);
				check!(lim.is_some(), "a known type is one of the protocol's types");
				check!(len <= 4 * lim.unwrap(), "announced length within (4x) the limit of its type");
			}
			Ok(MsgHeaderWrapper::Unknown(l, t)) => {
				check!(b[0] == magic[0] && b[1] == magic[1], "accepted frame carries this network's magic");
				check!(limit(*t, mbs).is_none() && *t == b[2], "unknown means not a protocol type");
				check!(*l == len && len <= 4 * mbs, "unknown types are bounded by the default limit");
			}
			Err(_) => {
				let lim = limit(b[2], mbs).unwrap_or(mbs);
				check!(b[0] != magic[0] || b[1] != magic[1] || len > 4 * lim, "a frame is refused only for wrong magic or an over-limit length");
			}
		}
		cover!(matches!(r, Ok(MsgHeaderWrapper::Unknown(_, _))), "unknown type accepted for skipping");
		cover!(r.is_err() && b[0] == magic[0] && b[1] == magic[1], "right magic, over-limit length refused");
		core::mem::forget(r);
	}
}

proof! {
	[alloc] fn read_message_wrong_type_refused() {
		// read_message::<Ping> on a frame of another known type with an empty body: BadMessage,
		// and a wrong-magic frame is refused before any body byte is consumed
		env::set_chain_type(grin_core::global::ChainTypes::Mainnet);
		let b: [u8; 11] = nd::any();
		let mut src: &[u8] = &b[..];
		env::alloc_limit(64 * 11 + 128 * 1024);
		let r = msg::read_message::<msg::Ping, _>(&mut src, ProtocolVersion(1), Type::Ping);
		if b[0] != 97 || b[1] != 61 {
			check!(r.is_err(), "wrong magic refused");
		}
		if let Err(P2pError::BadMessage) = &r {
			cover!(true, "frame of another type refused as a bad message");
		}
		check!(r.is_err(), "an 11-byte stream never yields a Ping (its body is 16 bytes)");
		core::mem::forget(r);
	}
}

proof! {
	[alloc] fn frame_header_writer_matches_reader() {
		// every frame header the reader accepts is reproduced byte for byte by the writer
		// (MsgHeader::write): magic, type and length are written where the reader looks for them
		let ct = env::any_chain_type();
		env::set_chain_type(ct);
		let b: [u8; 11] = nd::any();
		env::alloc_limit(1024);
		let r = ser::deserialize::<MsgHeaderWrapper, _>(&mut &b[..], ProtocolVersion(1), DeserializationMode::default());
		if let Ok(MsgHeaderWrapper::Known(h)) = &r {
			let mut out = [0u8; 11];
			let left = {
				let mut sink: &mut [u8] = &mut out[..];
				ser::serialize(&mut sink, ProtocolVersion(1), h).expect("serialises");
				sink.len()
			};
			check!(left == 0, "a frame header is 11 bytes");
			let i: usize = nd::any();
			nd::assume(i < 11);
			check!(out[i] == b[i], "the writer reproduces the accepted header");
			// and a header built for the same type and length is the same header
			let h2 = msg::MsgHeader::new(h.msg_type, h.msg_len);
			let mut out2 = [0u8; 11];
			{
				let mut sink: &mut [u8] = &mut out2[..];
				ser::serialize(&mut sink, ProtocolVersion(1), &h2).expect("serialises");
			}
			check!(out2[i] == b[i], "MsgHeader::new stamps this network's magic");
			cover!(true, "some header accepted");
		}
		core::mem::forget(r);
	}
}

const fn parse_env(s: Option<&str>, default: u64) -> u64 {
	match s {
		Some(s) => {
			let b = s.as_bytes();
			let mut v = 0u64;
			let mut i = 0;
			while i < b.len() {
				v = v * 10 + (b[i] - b'0') as u64;
				i += 1;
			}
			v
		}
		None => default,
	}
}
/// A `Read` over a byte array that models fragmentation in transit with CONCRETE cut points
/// (symbolic cut points make every later buffer index symbolic and symbolic execution does not
/// finish): one packet boundary at the absolute stream offset `split` (a read that would cross it
/// comes back short, ending at the boundary), or `one_byte` (every read returns a single byte).
/// The harnesses enumerate every `split`.
pub struct Frag<'a> {
	pub data: &'a [u8],
	pub pos: usize,
	pub calls: usize,
	pub split: usize,
	pub one_byte: bool,
	/// sizes of the frame parts (header, body, header, ...) of the stream, in order: the reader
	/// is expected to ask for each part with one `read_exact`. Needed to keep every index
	/// concrete: the announced body length is parsed out of a copied buffer and CBMC does not
	/// fold it back to a constant, so `buf.len()` itself is a symbolic expression.
	pub parts: &'a [usize],
	pub part: usize,
	pub rem: usize,
}
impl<'a> std::io::Read for Frag<'a> {
	fn read(&mut self, buf: &mut [u8]) -> std::io::Result<usize> {
		if self.rem == 0 {
			if self.part >= self.parts.len() {
				check!(buf.len() == 0, "nothing is requested beyond the last frame");
				return Ok(0);
			}
			self.rem = self.parts[self.part];
			self.part += 1;
		}
		// over-reading a frame part would block on a quiet connection or eat the next frame
		check!(buf.len() <= self.rem, "the reader never asks for more than the rest of the current frame part");
		// a reader that asks for less (legitimate chunking) is outside this model: the path is
		// cut and the obligation reports VACUOUS (inconclusive), not a violation
		nd::assume(buf.len() == self.rem);
		let left = self.data.len() - self.pos;
		let max = if self.rem < left { self.rem } else { left };
		if max == 0 {
			return Ok(0);
		}
		let k = if self.one_byte {
			1
		} else if self.pos < self.split && self.pos + max > self.split {
			self.split - self.pos
		} else {
			max
		};
		let mut i = 0;
		while i < k {
			buf[i] = self.data[self.pos + i];
			i += 1;
		}
		self.pos += k;
		self.rem -= k;
		self.calls += 1;
		Ok(k)
	}
}

/// packet boundaries tried: every SPLIT_STEP-th offset (1 = all)
const SPLIT_STEP: usize = parse_env(option_env!("VH_SPLITSTEP"), 1) as usize;
const UNK_LEN: usize = parse_env(option_env!("VH_UNKLEN"), 3) as usize;
const UNK_TYPE: u8 = parse_env(option_env!("VH_UNKTYPE"), 200) as u8;

proof! {
	[clock, alloc] fn message_sequence_under_fragmentation() {
		// Ping, then a frame of an UNKNOWN type, then Pong, written by the real writer
		// (Msg::new + write_message) into one byte stream and read back with read_message over a
		// reader that fragments the stream arbitrarily: the identical typed messages come out,
		// the unknown frame is skipped as a bad message without desynchronising the stream, and
		// exactly the written bytes are consumed
		use grin_core::pow::Difficulty;
		use grin_p2p::msg::{Msg, Ping, Pong};
		let ct = grin_core::global::ChainTypes::Mainnet;
		env::set_chain_type(ct);
		let v = ProtocolVersion(1);
		let d1: u64 = nd::any();
		let h1: u64 = nd::any();
		let d2: u64 = nd::any();
		let h2: u64 = nd::any();
		// E12: concrete 256-byte blocks, Vec growth in place (the writer serialises into growing
		// Vec<u8>s); every request is asserted to stay below 4 KiB - no body-sized allocation
		env::alloc_block(256);
		env::alloc_limit(4096);
		let tracker = std::sync::Arc::new(grin_p2p::VerifTracker::new());
		const N: usize = 27 + 11 + UNK_LEN + 27;
		let mut wire = [0u8; N];
		{
			let m1 = Msg::new(Type::Ping, Ping { total_difficulty: Difficulty::from_num(d1), height: h1 }, v).expect("ping serialises");
			let mut sink: &mut [u8] = &mut wire[0..27];
			msg::write_message(&mut sink, &m1, tracker.clone()).expect("ping written");
			check!(sink.len() == 0, "a Ping frame is 11 + 16 bytes");
			core::mem::forget(m1);
		}
		// frame of a type this node does not know: right magic, small body of arbitrary bytes
		let magic: [u8; 2] = match ct {
			grin_core::global::ChainTypes::Testnet => [83, 59],
			grin_core::global::ChainTypes::Mainnet => [97, 61],
			_ => [73, 43],
		};
		// the unknown type byte is concrete per query (a symbolic one makes every header parse of
		// the split loop fork into all 29 known types)
		let t: u8 = UNK_TYPE;
		wire[27] = magic[0];
		wire[28] = magic[1];
		wire[29] = t;
		wire[37] = UNK_LEN as u8;
		let junk: [u8; UNK_LEN] = nd::any();
		let mut i = 0;
		while i < UNK_LEN {
			wire[38 + i] = junk[i];
			i += 1;
		}
		{
			let m2 = Msg::new(Type::Pong, Pong { total_difficulty: Difficulty::from_num(d2), height: h2 }, v).expect("pong serialises");
			let mut sink: &mut [u8] = &mut wire[38 + UNK_LEN..];
			msg::write_message(&mut sink, &m2, tracker.clone()).expect("pong written");
			check!(sink.len() == 0, "a Pong frame is 11 + 16 bytes");
			core::mem::forget(m2);
		}
		// every single packet boundary (s = 1..N-1), no boundary (s = 0) and byte-by-byte (s = N)
		let mut s = 0;
		while s <= N {
			if SPLIT_STEP > 1 && s % SPLIT_STEP != 0 && s != N {
				s += 1;
				continue;
			}
			let mut src = Frag { data: &wire[..], pos: 0, calls: 0, split: if s < N { s } else { 0 }, one_byte: s == N, parts: &[11, 16, 11, UNK_LEN, 11, 16], part: 0, rem: 0 };
			let r1 = msg::read_message::<Ping, _>(&mut src, v, Type::Ping);
			match &r1 {
				Ok(p) => check!(p.total_difficulty.to_num() == d1 && p.height == h1, "the Ping read is the Ping written"),
				Err(_) => check!(false, "a written Ping is readable however the stream is fragmented"),
			}
			check!(src.pos == 27, "exactly the Ping frame consumed");
			let r2 = msg::read_message::<Pong, _>(&mut src, v, Type::Pong);
			check!(matches!(r2, Err(P2pError::BadMessage)), "a frame of unknown type is reported as a bad message");
			check!(src.pos == 38 + UNK_LEN, "and its announced body is skipped: the stream stays in step");
			let r3 = msg::read_message::<Pong, _>(&mut src, v, Type::Pong);
			match &r3 {
				Ok(p) => check!(p.total_difficulty.to_num() == d2 && p.height == h2, "the Pong after the unknown frame is the Pong written"),
				Err(_) => check!(false, "the message after a skipped frame is readable"),
			}
			check!(src.pos == N, "the whole stream is consumed, nothing more");
			cover!(s == 5 && src.calls == 7, "a frame header arrived in two fragments");
			cover!(s == N && src.calls == N, "byte by byte");
			core::mem::forget(r1);
			core::mem::forget(r2);
			core::mem::forget(r3);
			s += 1;
		}
		core::mem::forget(tracker);
	}
}

proof! {
	[alloc] fn read_message_type_mismatch_keeps_stream() {
		// read_message::<T> on a well-formed frame of ANOTHER known type with an empty body:
		// refused as a bad message after consuming exactly the frame header (nothing of the
		// next frame), and a wrong-magic header is refused too
		let ct = env::any_chain_type();
		env::set_chain_type(ct);
		let mut b: [u8; 22] = nd::any();
		// the announced length is zero (a symbolic length makes the body buffer a symbolic-size
		// object: such queries do not finish); magic, type and the following bytes are arbitrary
		let mut i = 3;
		while i < 11 {
			b[i] = 0;
			i += 1;
		}
		env::alloc_block(256);
		env::alloc_limit(4096);
		// unfragmented, one boundary inside the header (offset 5), byte-by-byte
		const MODES: [usize; 3] = [0, 5, 11];
		let mut mi = 0;
		while mi < 3 {
			let sp = MODES[mi];
			mi += 1;
			let mut src = Frag { data: &b[..], pos: 0, calls: 0, split: if sp < 11 { sp } else { 0 }, one_byte: sp == 11, parts: &[11], part: 0, rem: 0 };
			let r = msg::read_message::<msg::Ping, _>(&mut src, ProtocolVersion(1), Type::Ping);
			let magic: [u8; 2] = match ct {
				grin_core::global::ChainTypes::Testnet => [83, 59],
				grin_core::global::ChainTypes::Mainnet => [97, 61],
				_ => [73, 43],
			};
			let len = u64::from_be_bytes([b[3], b[4], b[5], b[6], b[7], b[8], b[9], b[10]]);
			if b[0] != magic[0] || b[1] != magic[1] {
				check!(r.is_err() && src.pos == 11, "wrong magic: refused after the 11 header bytes");
			} else if b[2] != 3 && b[2] <= 28 && len == 0 {
				check!(matches!(r, Err(P2pError::BadMessage)) && src.pos == 11, "another known type: bad message, only the header consumed");
				cover!(true, "frame of another known type");
			} else if b[2] == 3 && len == 0 {
				check!(r.is_err() && src.pos == 11, "a Ping frame announcing an empty body is refused without reading on");
				cover!(true, "ping with empty body");
			} else if b[2] > 28 {
				check!(matches!(r, Err(P2pError::BadMessage)) && src.pos == 11, "an unknown type with an empty body: bad message, only the header consumed");
				cover!(true, "unknown type");
			}
			core::mem::forget(r);
		}
	}
}

/// E8: the socket behind the codec. `TcpStream::read` hands out an arbitrary non-empty prefix of
/// what is asked for from a harness byte array; timeouts are no-ops (outside the claim).
pub mod sock {
	pub static mut DATA: [u8; 72] = [0u8; 72];
	pub static mut LEN: usize = 0;
	pub static mut POS: usize = 0;
	pub static mut CALLS: usize = 0;
	/// concrete packet boundary (absolute offset; 0 = none) / byte-by-byte mode, as in `Frag`
	pub static mut SPLIT: usize = 0;
	pub static mut ONE_BYTE: bool = false;
	pub fn read(_s: &mut std::net::TcpStream, buf: &mut [u8]) -> std::io::Result<usize> {
		unsafe {
			let left = LEN - POS;
			let max = if buf.len() < left { buf.len() } else { left };
			if max == 0 {
				return Ok(0);
			}
			let k = if ONE_BYTE {
				1
			} else if POS < SPLIT && POS + max > SPLIT {
				SPLIT - POS
			} else {
				max
			};
			let mut i = 0;
			while i < k {
				buf[i] = DATA[POS + i];
				i += 1;
			}
			POS += k;
			CALLS += 1;
			Ok(k)
		}
	}
	pub fn set_read_timeout(_s: &std::net::TcpStream, _d: Option<std::time::Duration>) -> std::io::Result<()> {
		Ok(())
	}
}

proof! {
	[clock]
	#[cfg_attr(kani, kani::stub(<std::net::TcpStream as std::io::Read>::read, sock::read))]
	#[cfg_attr(kani, kani::stub(std::net::TcpStream::set_read_timeout, sock::set_read_timeout))]
	fn codec_ping_then_unknown_then_pong() {
		// the streaming Codec (the reader of every established connection): a Ping frame, a frame
		// of an unknown type and a Pong frame arriving in arbitrary fragments are decoded as
		// Ping, Unknown(type), Pong with the written field values, consuming exactly the stream
		#[cfg(kani)]
		{
			use grin_p2p::msg::Message;
			use std::os::unix::io::FromRawFd;
			env::set_chain_type(grin_core::global::ChainTypes::Mainnet);
			let d1: u64 = nd::any();
			let h1: u64 = nd::any();
			let d2: u64 = nd::any();
			let h2: u64 = nd::any();
			let t: u8 = nd::any();
			nd::assume(t > 28);
			let junk: [u8; 2] = nd::any();
			unsafe {
				let w = &mut sock::DATA;
				let frame = |w: &mut [u8; 72], at: usize, ty: u8, len: u8| {
					w[at] = 97;
					w[at + 1] = 61;
					w[at + 2] = ty;
					w[at + 10] = len;
				};
				frame(w, 0, 3, 16);
				let b = d1.to_be_bytes();
				let c = h1.to_be_bytes();
				let mut i = 0;
				while i < 8 {
					w[11 + i] = b[i];
					w[19 + i] = c[i];
					i += 1;
				}
				frame(w, 27, t, 2);
				w[38] = junk[0];
				w[39] = junk[1];
				frame(w, 40, 4, 16);
				let b = d2.to_be_bytes();
				let c = h2.to_be_bytes();
				i = 0;
				while i < 8 {
					w[51 + i] = b[i];
					w[59 + i] = c[i];
					i += 1;
				}
				sock::LEN = 67;
			}
			const SPLITS: [usize; 8] = [0, 1, 5, 11, 20, 30, 39, 45];
			let mut si = 0;
			while si <= SPLITS.len() {
				unsafe {
					sock::POS = 0;
					sock::CALLS = 0;
					sock::ONE_BYTE = si == SPLITS.len();
					sock::SPLIT = if si < SPLITS.len() { SPLITS[si] } else { 0 };
				}
				let stream = unsafe { std::net::TcpStream::from_raw_fd(3) };
				let mut codec = grin_p2p::VerifCodec::new(ProtocolVersion(1), stream);
				let (m1, n1) = codec.read();
				match &m1 {
					Ok(Message::Ping(p)) => check!(p.total_difficulty.to_num() == d1 && p.height == h1, "codec: the Ping read is the Ping written"),
					_ => check!(false, "codec: a Ping frame is decoded as a Ping however it is fragmented"),
				}
				check!(n1 == 27, "codec reports the bytes of the frame");
				let (m2, n2) = codec.read();
				check!(matches!(m2, Ok(Message::Unknown(x)) if x == t), "codec: an unknown type is reported and its body skipped");
				check!(n2 == 13 && unsafe { sock::POS } == 40, "codec: exactly the unknown frame is consumed: the stream stays in step");
				let (m3, n3) = codec.read();
				match &m3 {
					Ok(Message::Pong(p)) => check!(p.total_difficulty.to_num() == d2 && p.height == h2, "codec: the Pong after the unknown frame is the Pong written"),
					_ => check!(false, "codec: the message after a skipped frame is decoded"),
				}
				check!(n3 == 27 && unsafe { sock::POS } == 67, "codec: the whole stream is consumed, nothing more");
				cover!(si == 2 && unsafe { sock::CALLS } == 7, "a frame header arrived in two fragments");
				core::mem::forget(m1);
				core::mem::forget(m2);
				core::mem::forget(m3);
				core::mem::forget(codec);
				si += 1;
			}
		}
	}
}

proof! {
	[clock, alloc] fn writer_frames_messages() {
		// the sending side: two messages written one after the other through the real writer
		// (Msg::new + write_message, one connection tracker) form exactly two frames on the wire -
		// this network's magic, the type byte, the body length as big-endian u64 (what the
		// reader's header parser, decided by frame_header_*, accepts), then the body bytes in
		// field order - nothing before, between or after them
		use grin_core::pow::Difficulty;
		use grin_p2p::msg::{BanReason, Msg, Ping};
		let ct = env::any_chain_type();
		env::set_chain_type(ct);
		let v = ProtocolVersion(1);
		let d1: u64 = nd::any();
		let h1: u64 = nd::any();
		nd::assume(d1 >= 1); // Difficulty::from_num lifts 0 to the minimum 1
		env::alloc_block(256);
		env::alloc_limit(4096);
		let tracker = std::sync::Arc::new(grin_p2p::VerifTracker::new());
		let mut wire = [0xAAu8; 27 + 15 + 2];
		// (each frame gets its own sink: after a first write into a shared sink the position of
		// the second is not a syntactic constant any more and every later index turns symbolic)
		let left1 = {
			let mut sink: &mut [u8] = &mut wire[0..28];
			let m1 = Msg::new(Type::Ping, Ping { total_difficulty: Difficulty::from_num(d1), height: h1 }, v).expect("ping serialises");
			msg::write_message(&mut sink, &m1, tracker.clone()).expect("ping written");
			core::mem::forget(m1);
			sink.len()
		};
		check!(left1 == 1, "a Ping frame is exactly 11 + 16 bytes");
		wire[27] = 0xAA;
		let left = {
			let mut sink: &mut [u8] = &mut wire[27..44];
			let m2 = Msg::new(Type::BanReason, BanReason { ban_reason: grin_p2p::ReasonForBan::BadBlock }, v).expect("ban reason serialises");
			msg::write_message(&mut sink, &m2, tracker.clone()).expect("ban reason written");
			core::mem::forget(m2);
			sink.len()
		};
		check!(left == 2, "a BanReason frame is exactly 11 + 4 bytes");
		let magic: [u8; 2] = match ct {
			grin_core::global::ChainTypes::Testnet => [83, 59],
			grin_core::global::ChainTypes::Mainnet => [97, 61],
			_ => [73, 43],
		};
		// expected image of the wire, compared byte by byte at a symbolic index
		let mut expect = [0xAAu8; 44];
		expect[0] = magic[0];
		expect[1] = magic[1];
		expect[2] = 3;
		expect[10] = 16;
		let (db, hb) = (d1.to_be_bytes(), h1.to_be_bytes());
		let mut i = 0;
		while i < 8 {
			expect[3 + i] = if i == 7 { 16 } else { 0 };
			expect[11 + i] = db[i];
			expect[19 + i] = hb[i];
			expect[30 + i] = if i == 7 { 4 } else { 0 };
			i += 1;
		}
		expect[27] = magic[0];
		expect[28] = magic[1];
		expect[29] = 18;
		expect[38] = 0;
		expect[39] = 0;
		expect[40] = 0;
		expect[41] = 1;
		// (compared at concrete indices: a symbolic index into the memcpy'd wire image exhausts memory)
		let mut k = 0;
		while k < 44 {
			check!(wire[k] == expect[k], "the wire holds exactly: magic, type 3, length 16, difficulty, height; magic, type 18, length 4, reason; nothing else");
			k += 1;
		}
		core::mem::forget(tracker);
	}
}

pub const HARNESSES: &[(&str, fn())] = &[
	("c19::frame_header_writer_matches_reader", frame_header_writer_matches_reader),
	("c19::frame_header_limits", frame_header_limits),
	("c19::writer_frames_messages", writer_frames_messages),
	("c19::codec_ping_then_unknown_then_pong", codec_ping_then_unknown_then_pong),
	("c19::message_sequence_under_fragmentation", message_sequence_under_fragmentation),
	("c19::read_message_type_mismatch_keeps_stream", read_message_type_mismatch_keeps_stream),
	("c19::read_message_wrong_type_refused", read_message_wrong_type_refused),
];
