//! C07 families B and C — the real PMMR over VecBackend against the defining construction,
//! and Merkle-proof soundness under the ideal hash.
base_uses!();
use crate::{env, nd};
use grin_core::core::hash::{DefaultHashable, Hash};
use grin_core::core::merkle_proof::MerkleProof;
use grin_core::core::pmmr::{self, ReadablePMMR, VecBackend, PMMR};
use grin_core::ser::{self, PMMRIndexHashable, PMMRable, Readable, Reader, Writeable, Writer};

#[derive(Clone, Copy, Debug, PartialEq)]
pub struct Elem(pub u32);
impl DefaultHashable for Elem {}
impl PMMRable for Elem {
	type E = Self;
	fn as_elmt(&self) -> Self::E {
		*self
	}
	fn elmt_size() -> Option<u16> {
		Some(4)
	}
}
impl Writeable for Elem {
	fn write<W: Writer>(&self, w: &mut W) -> Result<(), ser::Error> {
		w.write_u32(self.0)
	}
}
impl Readable for Elem {
	fn read<R: Reader>(r: &mut R) -> Result<Self, ser::Error> {
		Ok(Elem(r.read_u32()?))
	}
}

const fn parse_env(s: Option<&str>, default: u64) -> u64 {
	match s {
		Some(s) => {
			let b = s.as_bytes();
			let mut v = 0u64;
			let mut i = 0;
			while i < b.len() {
				v = v * 10 + (b[i] - b'0') as u64;
				i += 1;
			}
			v
		}
		None => default,
	}
}
/// number of leaves of this query's MMR
const NL: usize = parse_env(option_env!("VH_NLEAF"), 3) as usize;
/// mmr size for NL leaves: 2n - popcount(n)
const SIZE: usize = 2 * NL - (NL as u64).count_ones() as usize;

/// reference forest by the definition: node(pos) = H(pos, left, right), leaves H(pos, data)
fn reference(leaves: &[Elem; NL]) -> ([Hash; SIZE], Hash) {
	let mut h = [Hash::default(); SIZE];
	let mut pos = 0usize;
	let mut n = 0usize;
	while n < NL {
		h[pos] = leaves[n].hash_with_index(pos as u64);
		pos += 1;
		// parents created by this push: trailing zeros of (n+1)
		let mut k = 0u32;
		let mut sub = 1usize; // size of the subtree rooted at the node just written
		while k < ((n + 1) as u64).trailing_zeros() {
			let right = pos - 1;
			let left = right - sub;
			h[pos] = (h[left], h[right]).hash_with_index(pos as u64);
			sub = 2 * sub + 1;
			pos += 1;
			k += 1;
		}
		n += 1;
	}
	// root: peaks bagged right to left with the size
	let mut root: Option<Hash> = None;
	let mut rem = NL;
	let mut end = SIZE;
	// walk peaks from the right: smallest tree first
	let mut bit = 0;
	while bit < 6 {
		if rem & (1 << bit) != 0 {
			let peak = end - 1;
			root = Some(match root {
				None => h[peak],
				Some(r) => (h[peak], r).hash_with_index(SIZE as u64),
			});
			end -= (2 << bit) - 1;
			rem &= !(1 << bit);
		}
		bit += 1;
	}
	(h, root.unwrap())
}

fn any_leaves() -> [Elem; NL] {
	let mut l = [Elem(0); NL];
	let mut i = 0;
	while i < NL {
		l[i] = Elem(nd::any());
		i += 1;
	}
	l
}

fn build(leaves: &[Elem; NL]) -> VecBackend<Elem> {
	let mut ba = VecBackend::new();
	{
		let mut mmr = PMMR::new(&mut ba);
		let mut i = 0;
		while i < NL {
			let p = mmr.push(&leaves[i]);
			check!(p == Ok(pmmr::insertion_to_pmmr_index(i as u64)), "push returns the leaf position");
			i += 1;
		}
		check!(mmr.size == SIZE as u64, "size after n pushes is 2n - popcount(n)");
	}
	ba
}

proof! {
	[hash_mix, rand] fn construction_equals_definition() {
		let leaves = any_leaves();
		let mut ba = build(&leaves);
		let (href, root_ref) = reference(&leaves);
		{
			let mmr = PMMR::at(&mut ba, SIZE as u64);
			// indices are enumerated concretely (a symbolic index made symbolic execution itself
			// run for > 15 min); the leaf contents stay symbolic
			let mut q = 0;
			while q < SIZE {
				check!(mmr.get_hash(q as u64) == Some(href[q]), "every node hash equals the defining construction");
				q += 1;
			}
			check!(mmr.root() == Ok(root_ref), "root = peaks bagged right to left with the size");
			check!(mmr.validate().is_ok(), "PMMR::validate accepts its own construction");
			check!(mmr.unpruned_size() == SIZE as u64, "size");
		}
		core::mem::forget(ba);
	}
}

proof! {
	[hash_mix, rand] fn honest_proofs_verify() {
		// a proof for any present leaf verifies for exactly that element at that position
		let leaves = any_leaves();
		let mut ba = build(&leaves);
		{
			let mmr = PMMR::at(&mut ba, SIZE as u64);
			let root = mmr.root().unwrap();
			let mut i = 0;
			while i < NL {
				let pos = pmmr::insertion_to_pmmr_index(i as u64);
				let proof = mmr.merkle_proof(pos);
				check!(proof.is_ok(), "a proof exists for every leaf");
				let proof = proof.unwrap();
				check!(proof.mmr_size == SIZE as u64, "proof records the mmr size");
				check!(proof.verify(root, &leaves[i], pos).is_ok(), "honest proof verifies");
				core::mem::forget(proof);
				i += 1;
			}
			// no proof for a non-leaf position
			if SIZE > 2 {
				check!(mmr.merkle_proof(2).is_err(), "no proof for a parent position");
			}
		}
		core::mem::forget(ba);
	}
}

proof! {
	[hash_mix_count, rand] fn accepted_proofs_consume_their_path() {
		// Structural half of "shortening or lengthening the path makes verification fail", which
		// needs no assumption about the hash: whenever verification of a proof with m path hashes
		// succeeds, exactly m + 1 hashes were computed (the leaf and one per path element) — a
		// verifier that stops as soon as some intermediate hash equals the root, or that skips
		// path elements, is caught whatever the hash function is. Honest proof with an arbitrary
		// hash appended / prepended, and honest proof truncated at either end.
		let leaves = any_leaves();
		let mut ba = build(&leaves);
		let mmr = PMMR::at(&mut ba, SIZE as u64);
		let root = mmr.root().unwrap();
		let x: [u8; 32] = nd::any();
		let xh = Hash::from_vec(&x);
		let mut i = 0;
		while i < NL {
			let pos = pmmr::insertion_to_pmmr_index(i as u64);
			let proof = mmr.merkle_proof(pos).unwrap();
			let m = proof.path.len();
			let mut variant = 0;
			while variant < 5 {
				let mut p2 = proof.clone();
				match variant {
					0 => {}
					1 => p2.path.push(xh),
					2 => p2.path.insert(0, xh),
					3 => { p2.path.pop(); }
					_ => { if !p2.path.is_empty() { p2.path.remove(0); } }
				}
				let expect = p2.path.len() + 1;
				let before = env::hash_calls();
				let r = p2.verify(root, &leaves[i], pos);
				let used = env::hash_calls() - before;
				#[cfg(kani)]
				check!(r.is_err() || used == expect, "an accepted proof was consumed completely: one hash for the leaf and one per path element");
				if variant == 0 {
					check!(r.is_ok(), "the honest proof verifies");
					let _ = m;
				}
				core::mem::forget(p2);
				variant += 1;
			}
			core::mem::forget(proof);
			i += 1;
		}
	}
}

/// which leaf the soundness query is about
const LEAF: usize = parse_env(option_env!("VH_LEAF"), 0) as usize;
/// which corruption: 1 element, 2 position, 3 altered path hash, 4 shortened, 5 lengthened
const KIND: u64 = parse_env(option_env!("VH_KIND"), 1);

proof! {
	[hash_ideal, rand] fn merkle_proof_sound() {
		// under the ideal hash: every single corruption of element, position or path is rejected.
		// Leaf index, path index and probe position are enumerated concretely; element values and
		// substituted hashes are symbolic.
		let leaves = any_leaves();
		let mut ba = build(&leaves);
		let mmr = PMMR::at(&mut ba, SIZE as u64);
		let root = mmr.root().unwrap();
		let i = LEAF;
		let pos = pmmr::insertion_to_pmmr_index(i as u64);
		let proof = mmr.merkle_proof(pos).unwrap();
		check!(proof.verify(root, &leaves[i], pos).is_ok(), "honest proof verifies");
		// (1) another element
		if KIND == 1 {
		let e = Elem(nd::any());
		nd::assume(e != leaves[i]);
		check!(proof.verify(root, &e, pos).is_err(), "another element never verifies");
		}
		// (2) another position: every position of the mmr and a few beyond
		let mut p = 0u64;
		while KIND == 2 && p < SIZE as u64 + 3 {
			if p != pos {
				check!(proof.verify(root, &leaves[i], p).is_err(), "another position never verifies");
			}
			p += 1;
		}
		// (3) one path hash replaced by an arbitrary different value
		let x: [u8; 32] = nd::any();
		let xh = Hash::from_vec(&x);
		let mut j = 0;
		while KIND == 3 && j < proof.path.len() {
			let mut p2 = proof.clone();
			if xh != p2.path[j] {
				p2.path[j] = xh;
				check!(p2.verify(root, &leaves[i], pos).is_err(), "an altered path hash never verifies");
			}
			core::mem::forget(p2);
			j += 1;
		}
		// (4) path shortened at either end
		if KIND == 4 && !proof.path.is_empty() {
			let mut p2 = proof.clone();
			p2.path.remove(0);
			check!(p2.verify(root, &leaves[i], pos).is_err(), "a path shortened at the front never verifies");
			core::mem::forget(p2);
			let mut p3 = proof.clone();
			p3.path.pop();
			check!(p3.verify(root, &leaves[i], pos).is_err(), "a path shortened at the back never verifies");
			core::mem::forget(p3);
		}
		// (5) path lengthened by an arbitrary hash at either end
		if KIND == 5 {
		let mut p4 = proof.clone();
		p4.path.insert(0, xh);
		check!(p4.verify(root, &leaves[i], pos).is_err(), "a path lengthened at the front never verifies");
		core::mem::forget(p4);
		let mut p5 = proof.clone();
		p5.path.push(xh);
		check!(p5.verify(root, &leaves[i], pos).is_err(), "a path lengthened at the back never verifies");
		core::mem::forget(p5);
		}
		core::mem::forget(proof);
	}
}

/// number of path hashes in the proof of this query
const PLEN: usize = parse_env(option_env!("VH_PLEN"), 1) as usize;
const NONE: usize = usize::MAX;
/// position this query is about (>= SIZE: every position)
const FPOS: usize = parse_env(option_env!("VH_POS"), 1000) as usize;

/// explicit tree of the NL-leaf MMR by the append rule: (parent, node is a right child)
const fn tree() -> ([usize; SIZE], [bool; SIZE]) {
	let mut parent = [NONE; SIZE];
	let mut is_right = [false; SIZE];
	let mut pos = 0usize;
	let mut n = 0usize;
	while n < NL {
		pos += 1;
		let mut k = 0u32;
		let mut sub = 1usize;
		while k < ((n + 1) as u64).trailing_zeros() {
			let right = pos - 1;
			let left = right - sub;
			parent[left] = pos;
			parent[right] = pos;
			is_right[right] = true;
			sub = 2 * sub + 1;
			pos += 1;
			k += 1;
		}
		n += 1;
	}
	(parent, is_right)
}
const PARENT: [usize; SIZE] = tree().0;
const IS_RIGHT: [bool; SIZE] = tree().1;

/// The defining fold of a Merkle path: hash the element at its position, combine with one path
/// hash per level up to the peak (left child first, parent position as index), then with the
/// bagged peaks to the right (if any; index = mmr size), then with each peak to the left, nearest
/// first. The WHOLE path is consumed; the result is compared with the root.
fn fold(e: &Elem, pos: usize, path: &[Hash]) -> [Hash; PLEN + 1] {
	// out[i] = running hash after consuming i path hashes
	let mut out = [Hash::default(); PLEN + 1];
	let mut h = e.hash_with_index(pos as u64);
	out[0] = h;
	let mut cur = pos;
	let mut i = 0;
	while i < path.len() && PARENT[cur] != NONE {
		let p = PARENT[cur];
		h = if IS_RIGHT[cur] {
			(path[i], h).hash_with_index(p as u64)
		} else {
			(h, path[i]).hash_with_index(p as u64)
		};
		cur = p;
		i += 1;
		out[i] = h;
	}
	if i < path.len() {
		// cur is a peak
		if cur != SIZE - 1 {
			h = (h, path[i]).hash_with_index(SIZE as u64);
			i += 1;
			out[i] = h;
		}
		while i < path.len() {
			h = (path[i], h).hash_with_index(SIZE as u64);
			i += 1;
			out[i] = h;
		}
	}
	out
}

proof! {
	[hash_mix] fn verify_is_the_defining_fold() {
		// MerkleProof::verify on an ARBITRARY proof (not one produced by the MMR): for every position
		// of the MMR, any element, any path hashes and any root, it accepts exactly when the defining
		// fold over the whole path yields the root. Everything the property says about altered
		// proofs (other element / position / path hash, shortened, lengthened) then reduces to the
		// fold being injective, i.e. to collision resistance of the hash, which is not grin's code.
		let e = Elem(nd::any());
		let r: [u8; 32] = nd::any();
		// the root is arbitrary (sel = 0) or, so that a counterexample found under the hash model
		// replays against real blake2b, one of the running hashes of the fold (sel = k + 1)
		let sel: u8 = nd::any();
		nd::assume(sel as usize <= PLEN + 1);
		let mut path: Vec<Hash> = Vec::with_capacity(PLEN + 1);
		let mut i = 0;
		while i < PLEN {
			let x: [u8; 32] = nd::any();
			path.push(Hash::from_vec(&x));
			i += 1;
		}
		// VH_POS: one position per query (SIZE = all positions in one query)
		let mut pos = if FPOS < SIZE { FPOS } else { 0 };
		let end = if FPOS < SIZE { FPOS + 1 } else { SIZE };
		while pos < end {
			let proof = MerkleProof { mmr_size: SIZE as u64, path: path.clone() };
			let inter = fold(&e, pos, &path);
			let expected = inter[PLEN];
			let mut root = Hash::from_vec(&r);
			let mut k = 0;
			while k <= PLEN {
				if sel as usize == k + 1 {
					root = inter[k];
				}
				k += 1;
			}
			let res = proof.verify(root, &e, pos as u64);
			check!(res.is_ok() == (expected == root), "verify accepts exactly when the defining fold over the whole path yields the root");
			cover!(res.is_ok(), "some proof is accepted");
			cover!(res.is_err(), "some proof is refused");
			core::mem::forget(proof);
			pos += 1;
		}
		core::mem::forget(path);
	}
}

pub const HARNESSES: &[(&str, fn())] = &[
	("c07b::verify_is_the_defining_fold", verify_is_the_defining_fold),
	("c07b::construction_equals_definition", construction_equals_definition),
	("c07b::honest_proofs_verify", honest_proofs_verify),
	("c07b::accepted_proofs_consume_their_path", accepted_proofs_consume_their_path),
	("c07b::merkle_proof_sound", merkle_proof_sound),
];
