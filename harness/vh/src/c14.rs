//! C14 — the pool's admission gate: fee floor, NRD variant rule, fee / weight arithmetic.
base_uses!();
#[allow(unused_imports)]
use ::grin_keychain;
use crate::{env, nd};
use grin_core::core::block::{BlockHeader, HeaderVersion};
use grin_core::core::hash::Hash;
use grin_core::core::transaction::{CommitWrapper, FeeFields, KernelFeatures, NRDRelativeHeight, OutputFeatures};
use grin_core::core::{BlockSums, Inputs, Output, OutputIdentifier, Transaction, TransactionBody, TxKernel};
use grin_keychain::BlindingFactor;
use grin_pool::types::{BlockChain, NoopPoolAdapter, PoolConfig, PoolError, TxSource};
use grin_pool::TransactionPool;
use grin_util::secp::pedersen::{Commitment, RangeProof};
use grin_util::secp::Signature;
use std::sync::Arc;

/// model chain: never reached by the early-refusal harnesses; answers "ok" otherwise
pub struct MChain;
impl BlockChain for MChain {
	fn verify_coinbase_maturity(&self, _inputs: &Inputs) -> Result<(), PoolError> {
		Ok(())
	}
	fn verify_tx_lock_height(&self, _tx: &Transaction) -> Result<(), PoolError> {
		Ok(())
	}
	fn validate_tx(&self, _tx: &Transaction) -> Result<(), PoolError> {
		Ok(())
	}
	fn validate_inputs(&self, _inputs: &Inputs) -> Result<Vec<OutputIdentifier>, PoolError> {
		Ok(vec![])
	}
	fn chain_head(&self) -> Result<BlockHeader, PoolError> {
		Ok(BlockHeader::default())
	}
	fn get_block_header(&self, _hash: &Hash) -> Result<BlockHeader, PoolError> {
		Ok(BlockHeader::default())
	}
	fn get_block_sums(&self, _hash: &Hash) -> Result<BlockSums, PoolError> {
		Ok(BlockSums::default())
	}
}

fn commit(b: u8) -> Commitment {
	let mut c = [0u8; 33];
	c[0] = 8;
	c[1] = b;
	Commitment(c)
}
fn fee_fields(fee: u64, shift: u64) -> FeeFields {
	let raw = (shift << 40) | fee;
	let b = raw.to_be_bytes();
	grin_core::ser::deserialize_default(&mut &b[..]).unwrap()
}
fn tx_1_2_1(features: KernelFeatures) -> Transaction {
	// one input, no outputs, one kernel: the gate under test only reads counts and fee fields
	// (two 700-byte outputs made the query exceed 23 GB / 37 min without finishing)
	Transaction {
		offset: BlindingFactor::zero(),
		body: TransactionBody {
			inputs: Inputs::CommitOnly(vec![CommitWrapper::from(commit(1))]),
			outputs: vec![],
			kernels: vec![TxKernel { features, excess: commit(4), excess_sig: Signature::from_raw_data(&[0u8; 64]).unwrap() }],
		},
	}
}

proof! {
	[zeroize, clock] fn pool_refuses_low_fee() {
		env::set_chain_type(grin_core::global::ChainTypes::Mainnet);
		env::set_nrd_enabled(false);
		let base: u64 = nd::any();
		nd::assume(base < (1 << 40));
		env::set_accept_fee_base(base);
		let fee: u64 = nd::any();
		nd::assume(fee < (1 << 40));
		let shift: u64 = nd::any();
		nd::assume(shift < 16);
		let locked: bool = nd::any();
		let features = if locked {
			KernelFeatures::HeightLocked { fee: fee_fields(fee, shift), lock_height: nd::any() }
		} else {
			KernelFeatures::Plain { fee: fee_fields(fee, shift) }
		};
		let tx = tx_1_2_1(features);
		// weight of 1 input, 0 outputs, 1 kernel = 1 + 0 + 3
		check!(tx.weight() == 4, "weight = inputs + 21*outputs + 3*kernels");
		check!(tx.shifted_fee() == fee >> shift, "shifted fee = fee >> fee_shift");
		check!(tx.accept_fee() == 4 * base, "minimum fee = weight * base");
		let stem: bool = nd::any();
		let mut pool = TransactionPool::new(PoolConfig::default(), Arc::new(MChain), Arc::new(NoopPoolAdapter {}));
		let header = BlockHeader::default();
		let low = (fee >> shift) < 4 * base;
		nd::assume(low);
		let r = pool.add_to_pool(TxSource::Broadcast, tx, stem, &header);
		check!(matches!(r, Err(PoolError::LowFeeTransaction(_))), "a transaction paying less than weight*base (after its fee shift) is refused as low-fee");
		cover!(shift > 0 && fee >= 4 * base, "fee sufficient before the shift but not after");
		core::mem::forget(r);
		core::mem::forget(pool);
	}
}

proof! {
	[zeroize, clock] fn pool_refuses_nrd_unless_enabled_and_hf3() {
		env::set_chain_type(grin_core::global::ChainTypes::Mainnet);
		let enabled: bool = nd::any();
		env::set_nrd_enabled(enabled);
		env::set_accept_fee_base(0);
		let v: u16 = nd::any();
		let mut header = BlockHeader::default();
		header.version = HeaderVersion(v);
		let rh: u16 = nd::any();
		nd::assume(rh >= 1 && rh <= 10080);
		let tx = tx_1_2_1(KernelFeatures::NoRecentDuplicate { fee: fee_fields(1, 0), relative_height: NRDRelativeHeight::new(rh as u64).unwrap() });
		let mut pool = TransactionPool::new(PoolConfig::default(), Arc::new(MChain), Arc::new(NoopPoolAdapter {}));
		nd::assume(!enabled || v < 4);
		let r = pool.add_to_pool(TxSource::Broadcast, tx, false, &header);
		if !enabled {
			check!(matches!(r, Err(PoolError::NRDKernelNotEnabled)), "NRD kernels refused while the feature is off");
		} else {
			check!(matches!(r, Err(PoolError::NRDKernelPreHF3)), "NRD kernels refused before header version 4");
		}
		cover!(enabled, "enabled but pre-HF3");
		core::mem::forget(r);
		core::mem::forget(pool);
	}
}

proof! {
	fn fee_and_weight_arithmetic() {
		// two fee-carrying kernels plus an optional coinbase kernel: fee = sum, shift = max,
		// shifted = sum >> max; weight_by_iok saturates instead of wrapping
		let f1: u64 = nd::any();
		let f2: u64 = nd::any();
		nd::assume(f1 < (1 << 40) && f2 < (1 << 40));
		let s1: u64 = nd::any();
		let s2: u64 = nd::any();
		nd::assume(s1 < 16 && s2 < 16);
		let k = |features| TxKernel { features, excess: commit(9), excess_sig: Signature::from_raw_data(&[0u8; 64]).unwrap() };
		let body = TransactionBody {
			inputs: Inputs::default(),
			outputs: vec![],
			kernels: vec![
				k(KernelFeatures::Plain { fee: fee_fields(f1, s1) }),
				k(KernelFeatures::Coinbase),
				k(KernelFeatures::HeightLocked { fee: fee_fields(f2, s2), lock_height: 7 }),
			],
		};
		let smax = if s1 > s2 { s1 } else { s2 };
		check!(body.fee() == f1 + f2, "fee = sum over fee-carrying kernels (coinbase carries none)");
		check!(body.fee_shift() as u64 == smax, "fee_shift = max over kernels");
		check!(body.shifted_fee() == (f1 + f2) >> smax, "shifted fee");
		let i: u64 = nd::any();
		let o: u64 = nd::any();
		let kk: u64 = nd::any();
		let w = TransactionBody::weight_by_iok(i, o, kk);
		let exact = i as u128 + 21 * o as u128 + 3 * kk as u128;
		check!(w as u128 == if exact > u64::MAX as u128 { u64::MAX as u128 } else { exact }, "weight = i + 21 o + 3 k, saturating");
		core::mem::forget(body);
	}
}

proof! {
	[zeroize] fn tx_fee_gate_inputs() {
		// the three quantities the pool's fee gate compares, on a real Transaction
		env::set_chain_type(grin_core::global::ChainTypes::Mainnet);
		let base: u64 = nd::any();
		nd::assume(base < (1 << 40));
		env::set_accept_fee_base(base);
		let fee: u64 = nd::any();
		nd::assume(fee < (1 << 40));
		let shift: u64 = nd::any();
		nd::assume(shift < 16);
		let tx = tx_1_2_1(KernelFeatures::Plain { fee: fee_fields(fee, shift) });
		check!(tx.weight() == 4, "weight = inputs + 21*outputs + 3*kernels");
		check!(tx.fee() == fee, "fee");
		check!(tx.shifted_fee() == fee >> shift, "shifted fee = fee >> fee_shift");
		check!(tx.accept_fee() == 4 * base, "minimum fee = weight * accept_fee_base");
		check!((tx.shifted_fee() < tx.accept_fee()) == ((fee >> shift) < 4 * base), "the gate's comparison");
		cover!(shift > 0 && fee >= 4 * base && (fee >> shift) < 4 * base, "fee sufficient before the shift but not after");
		core::mem::forget(tx);
	}
}

/// model chain with symbolic (but fixed per run) answers and call flags: the trait is the
/// pool's boundary to the chain
pub struct SChain {
	pub maturity_ok: bool,
	pub lock_ok: bool,
	pub utxo_ok: bool,
}
pub static mut LOCK_ASKED: u32 = 0;
pub static mut MATURITY_ASKED: u32 = 0;
pub static mut UTXO_ASKED: u32 = 0;
impl BlockChain for SChain {
	fn verify_coinbase_maturity(&self, _inputs: &Inputs) -> Result<(), PoolError> {
		unsafe { MATURITY_ASKED += 1 };
		if self.maturity_ok { Ok(()) } else { Err(PoolError::ImmatureCoinbase) }
	}
	fn verify_tx_lock_height(&self, _tx: &Transaction) -> Result<(), PoolError> {
		unsafe { LOCK_ASKED += 1 };
		if self.lock_ok { Ok(()) } else { Err(PoolError::ImmatureTransaction) }
	}
	fn validate_tx(&self, _tx: &Transaction) -> Result<(), PoolError> {
		unsafe { UTXO_ASKED += 1 };
		if self.utxo_ok { Ok(()) } else { Err(PoolError::DuplicateCommitment) }
	}
	fn validate_inputs(&self, inputs: &Inputs) -> Result<Vec<OutputIdentifier>, PoolError> {
		// every input is an unspent plain output of the chain
		let commits: Vec<CommitWrapper> = inputs.into();
		let mut v = Vec::with_capacity(1);
		let mut i = 0;
		while i < commits.len() {
			v.push(OutputIdentifier { features: OutputFeatures::Plain, commit: commits[i].commitment() });
			i += 1;
		}
		Ok(v)
	}
	fn chain_head(&self) -> Result<BlockHeader, PoolError> {
		Ok(BlockHeader::default())
	}
	fn get_block_header(&self, _hash: &Hash) -> Result<BlockHeader, PoolError> {
		Ok(BlockHeader::default())
	}
	fn get_block_sums(&self, _hash: &Hash) -> Result<BlockSums, PoolError> {
		Ok(BlockSums::default())
	}
}
pub static mut TX_ACCEPTED: u32 = 0;
pub static mut STEM_ACCEPTED: u32 = 0;
pub struct SAdapter {
	pub stem_ok: bool,
}
impl grin_pool::types::PoolAdapter for SAdapter {
	fn tx_accepted(&self, _entry: &grin_pool::types::PoolEntry) {
		unsafe { TX_ACCEPTED += 1 };
	}
	fn stem_tx_accepted(&self, _entry: &grin_pool::types::PoolEntry) -> Result<(), PoolError> {
		unsafe { STEM_ACCEPTED += 1 };
		if self.stem_ok { Ok(()) } else { Err(PoolError::DandelionError) }
	}
}

/// tagging stub for Transaction::validate (the standalone validation itself is decided under
/// C01): records the weighting it was asked for and answers with the run's symbolic verdict
pub mod tag {
	use grin_core::core::transaction::{Error, Transaction, Weighting};
	pub static mut AS_TX_CALLS: u32 = 0;
	pub static mut NO_LIMIT_CALLS: u32 = 0;
	pub static mut OTHER_CALLS: u32 = 0;
	pub static mut VALID_AS_TX: bool = true;
	pub static mut VALID_NO_LIMIT: bool = true;
	pub fn validate(_tx: &Transaction, weighting: Weighting) -> Result<(), Error> {
		unsafe {
			match weighting {
				Weighting::AsTransaction => {
					AS_TX_CALLS += 1;
					if VALID_AS_TX { Ok(()) } else { Err(Error::TooHeavy) }
				}
				Weighting::NoLimit => {
					NO_LIMIT_CALLS += 1;
					if VALID_NO_LIMIT { Ok(()) } else { Err(Error::IncorrectSignature) }
				}
				_ => {
					OTHER_CALLS += 1;
					Err(Error::TooHeavy)
				}
			}
		}
	}
}

/// model of BlindingFactor::add over the E7 scalar group (the real one is a
/// filter / filter_map / collect chain around blind_sum whose symbolic execution does not finish;
/// `BlindingFactor::split`, the same arithmetic without the chain, is decided under C20)
#[cfg(kani)]
pub fn bf_add_model(a: &BlindingFactor, b: &BlindingFactor, _secp: &grin_util::secp::Secp256k1) -> Result<BlindingFactor, grin_keychain::Error> {
	let x = a.as_ref();
	let y = b.as_ref();
	let r = (x[0] as u16 | (x[1] as u16) << 8).wrapping_add(y[0] as u16 | (y[1] as u16) << 8);
	Ok(BlindingFactor::from_secret_key(crate::secp_model::key_of(r)))
}

proof! {
	[secp, hash_mix, clock, sort]
	#[cfg_attr(kani, kani::stub(grin_core::core::transaction::Transaction::validate, tag::validate))]
	#[cfg_attr(kani, kani::stub(grin_keychain::BlindingFactor::add, bf_add_model))]
	fn add_to_pool_gate_sequencing() {
		// TransactionPool::add_to_pool on empty pools, one transaction, with the chain, the
		// adapter and standalone validation answering arbitrarily: the transaction is admitted
		// ONLY IF it pays the minimum fee for its weight, standalone validation (as a
		// transaction: weight limit included) accepted it, lock height, coinbase maturity and
		// the chain's utxo check passed, and an NRD kernel is allowed; a refusal leaves the
		// public pool empty and signals nothing
		#[cfg(kani)]
		{
			env::set_chain_type(grin_core::global::ChainTypes::Mainnet);
			let nrd_enabled: bool = nd::any();
			env::set_nrd_enabled(nrd_enabled);
			let base: u64 = nd::any();
			nd::assume(base < (1 << 40));
			env::set_accept_fee_base(base);
			let fee: u64 = nd::any();
			nd::assume(fee < (1 << 40));
			let shift: u64 = nd::any();
			nd::assume(shift < 16);
			let kind: u8 = nd::any();
			nd::assume(kind < 3);
			let features = match kind {
				0 => KernelFeatures::Plain { fee: fee_fields(fee, shift) },
				1 => KernelFeatures::HeightLocked { fee: fee_fields(fee, shift), lock_height: nd::any() },
				_ => KernelFeatures::NoRecentDuplicate { fee: fee_fields(fee, shift), relative_height: NRDRelativeHeight::new(1440).unwrap() },
			};
			let tx = tx_1_2_1(features);
			let v: u16 = nd::any();
			let mut header = BlockHeader::default();
			header.version = HeaderVersion(v);
			let stem: bool = nd::any();
			unsafe {
				tag::VALID_AS_TX = nd::any();
				tag::VALID_NO_LIMIT = nd::any();
			}
			let chain = SChain { maturity_ok: nd::any(), lock_ok: nd::any(), utxo_ok: nd::any() };
			let (m_ok, l_ok, u_ok) = (chain.maturity_ok, chain.lock_ok, chain.utxo_ok);
			let adapter = SAdapter { stem_ok: nd::any() };
			let stem_ok = adapter.stem_ok;
			let mut pool = TransactionPool::new(PoolConfig::default(), Arc::new(chain), Arc::new(adapter));
			let r = pool.add_to_pool(TxSource::Broadcast, tx, stem, &header);
			let low = (fee >> shift) < 4 * base;
			let (as_tx, no_limit, other) = unsafe { (tag::AS_TX_CALLS, tag::NO_LIMIT_CALLS, tag::OTHER_CALLS) };
			let in_tx = pool.txpool.size();
			let in_stem = pool.stempool.size();
			if r.is_ok() {
				check!(!low, "admitted => pays at least weight * accept_fee_base after its fee shift");
				check!(as_tx >= 1 && unsafe { tag::VALID_AS_TX }, "admitted => standalone validation as a transaction (weight limit included) ran and accepted it");
				check!(other == 0, "no other weighting is used on the admission path");
				check!(unsafe { LOCK_ASKED } >= 1 && l_ok, "admitted => lock height checked against the chain and satisfied");
				check!(unsafe { MATURITY_ASKED } >= 1 && m_ok, "admitted => coinbase maturity checked and satisfied");
				check!(unsafe { UTXO_ASKED } >= 1 && u_ok, "admitted => inputs / outputs checked against the chain's utxo set");
				check!(no_limit >= 1 && unsafe { tag::VALID_NO_LIMIT }, "admitted => the pool aggregate was validated");
				check!(kind != 2 || (nrd_enabled && v >= 4), "an NRD kernel is admitted only when enabled and from header version 4");
				if stem && stem_ok {
					check!(in_stem == 1 && in_tx == 0 && unsafe { TX_ACCEPTED } == 0, "an accepted stem transaction stays in the stempool only");
				} else {
					check!(in_tx == 1 && unsafe { TX_ACCEPTED } == 1, "a fluffed transaction is in the public pool and announced once");
				}
				check!(stem || in_stem == 0, "a fluff transaction never enters the stempool");
			} else {
				check!(in_tx == 0 && unsafe { TX_ACCEPTED } == 0, "a refused transaction is not in the public pool and is not announced");
				if low && !(kind == 2 && (!nrd_enabled || v < 4)) {
					check!(matches!(r, Err(PoolError::LowFeeTransaction(_))) && as_tx == 0, "below the fee floor: refused as low-fee before validation");
				}
			}
			cover!(r.is_ok() && stem && stem_ok, "stem transaction admitted to the stempool");
			cover!(r.is_ok() && stem && !stem_ok, "stem transaction fluffed because the adapter refused");
			cover!(r.is_ok() && !stem && kind == 2, "NRD transaction admitted");
			cover!(r.is_err() && !low && !l_ok, "refused for its lock height");
			core::mem::forget(r);
			core::mem::forget(pool);
		}
	}
}

proof! {
	[secp, hash_mix, clock, sort]
	#[cfg_attr(kani, kani::stub(grin_core::core::transaction::Transaction::validate, tag::validate))]
	#[cfg_attr(kani, kani::stub(grin_keychain::BlindingFactor::add, bf_add_model))]
	fn pool_add_validates_against_chain() {
		// Pool::add_to_pool (the aggregate-and-validate step behind both the public pool and the
		// stempool) on an empty pool: the entry is stored ONLY IF validation of the aggregate
		// (here the transaction itself) ran and accepted, the chain's utxo check passed, and the
		// kernel sums balance on top of the chain's block sums; a refusal leaves the pool empty
		#[cfg(kani)]
		{
			use crate::secp_model as m;
			use grin_pool::types::PoolEntry;
			env::set_chain_type(grin_core::global::ChainTypes::Mainnet);
			env::set_nrd_enabled(false);
			env::set_accept_fee_base(0);
			let (vi, ri): (u16, u16) = (nd::any(), nd::any());
			let (vk, rk): (u16, u16) = (nd::any(), nd::any());
			nd::assume((vi != 0 || ri != 0) && (vk != 0 || rk != 0));
			let fee: u64 = nd::any();
			nd::assume(fee < (1 << 16));
			let off: u16 = nd::any();
			let tx = Transaction {
				offset: BlindingFactor::from_secret_key(m::key_of(off)),
				body: TransactionBody {
					inputs: Inputs::CommitOnly(vec![CommitWrapper::from(m::pack(vi, ri))]),
					outputs: vec![],
					kernels: vec![TxKernel { features: KernelFeatures::Plain { fee: fee_fields(fee, 0) }, excess: m::pack(vk, rk), excess_sig: Signature::from_raw_data(&[1u8; 64]).unwrap() }],
				},
			};
			unsafe {
				tag::VALID_NO_LIMIT = nd::any();
			}
			let chain = SChain { maturity_ok: true, lock_ok: true, utxo_ok: nd::any() };
			let u_ok = chain.utxo_ok;
			let mut pool = grin_pool::Pool::new(Arc::new(chain), "p".to_string());
			let header = BlockHeader::default();
			let r = pool.add_to_pool(PoolEntry::new(tx, TxSource::Broadcast), None, &header);
			// balance on top of zero block sums and a zero header offset (model group, mod 2^16):
			// 0 - input + fee = excess  and  0 - r_input = r_excess + offset
			let balanced = 0u16.wrapping_sub(vi).wrapping_add(fee as u16) == vk && 0u16.wrapping_sub(ri) == rk.wrapping_add(off);
			if r.is_ok() {
				check!(unsafe { tag::NO_LIMIT_CALLS } >= 1 && unsafe { tag::VALID_NO_LIMIT }, "stored => validation of the pool aggregate ran and accepted");
				check!(unsafe { UTXO_ASKED } >= 1 && u_ok, "stored => checked against the chain's utxo set");
				check!(balanced, "stored => the kernel sums balance on top of the chain's block sums");
				check!(pool.size() == 1, "the entry is in the pool");
			} else {
				check!(pool.size() == 0, "a refusal leaves the pool empty");
			}
			cover!(r.is_ok(), "stored");
			cover!(r.is_err() && u_ok && unsafe { tag::VALID_NO_LIMIT }, "refused for its sums only");
			core::mem::forget(r);
			core::mem::forget(pool);
		}
	}
}

pub const HARNESSES: &[(&str, fn())] = &[
	("c14::pool_refuses_low_fee", pool_refuses_low_fee),
	("c14::pool_refuses_nrd_unless_enabled_and_hf3", pool_refuses_nrd_unless_enabled_and_hf3),
	("c14::fee_and_weight_arithmetic", fee_and_weight_arithmetic),
	("c14::tx_fee_gate_inputs", tx_fee_gate_inputs),
	("c14::add_to_pool_gate_sequencing", add_to_pool_gate_sequencing),
	("c14::pool_add_validates_against_chain", pool_add_validates_against_chain),
];
