//! E7 — algebraic model of the Pedersen commitment group (DESIGN §3).
//!
//! A commitment is the pair (v, r) in Z_2^16 x Z_2^16 packed into the 33 commitment bytes:
//! byte 0 = 0x08 tag, bytes 1..3 = v, bytes 3..5 = r; the group identity is the all-zero
//! commitment (what `commit_to_zero_value()` denotes and `sum_commits` filters out).
//! Sums add component-wise. This is the image of the real group under a homomorphism, so every
//! relation the real library accepts is accepted here; the harnesses only assert implications
//! of the form "accepted => equation holds in the model".
//! Signature and range-proof verification are oracles: bit 0 of the signature / proof bytes
//! says whether "the library" accepts it; the stubs consult exactly the objects grin passes in.
#![cfg(kani)]

use grin_util::secp::key::{PublicKey, SecretKey};
use grin_util::secp::pedersen::{Commitment, ProofRange, RangeProof};
use grin_util::secp::{ContextFlag, Error, Message, Secp256k1, Signature};
use grin_util::Mutex;
use std::sync::Arc;

pub fn pack(v: u16, r: u16) -> Commitment {
	let mut c = [0u8; 33];
	if v != 0 || r != 0 {
		c[0] = 0x08;
		c[1] = v as u8;
		c[2] = (v >> 8) as u8;
		c[3] = r as u8;
		c[4] = (r >> 8) as u8;
	}
	Commitment(c)
}
pub fn unpack(c: &Commitment) -> (u16, u16) {
	(c.0[1] as u16 | (c.0[2] as u16) << 8, c.0[3] as u16 | (c.0[4] as u16) << 8)
}
pub fn key_of(r: u16) -> SecretKey {
	let mut k = [0u8; 32];
	k[0] = r as u8;
	k[1] = (r >> 8) as u8;
	SecretKey(k)
}
pub fn r_of(k: &SecretKey) -> u16 {
	k.0[0] as u16 | (k.0[1] as u16) << 8
}

/// how many signatures / proofs the oracles were asked about (ghost counters)
pub static mut SIGS_ASKED: usize = 0;
pub static mut PROOFS_ASKED: usize = 0;

pub fn fake_secp() -> Secp256k1 {
	// { ctx: *mut ffi::Context, caps: ContextFlag } — never dereferenced by the model
	unsafe { core::mem::transmute::<(usize, ContextFlag), Secp256k1>((0usize, ContextFlag::Commit)) }
}
const _: () = assert!(core::mem::size_of::<Secp256k1>() == core::mem::size_of::<(usize, ContextFlag)>());

pub fn static_secp_instance() -> Arc<Mutex<Secp256k1>> {
	Arc::new(Mutex::new(fake_secp()))
}
pub fn secp_drop(_s: &mut Secp256k1) {}

pub fn commit(_s: &Secp256k1, value: u64, blind: SecretKey) -> Result<Commitment, Error> {
	Ok(pack(value as u16, r_of(&blind)))
}
pub fn commit_value(_s: &Secp256k1, value: u64) -> Result<Commitment, Error> {
	Ok(pack(value as u16, 0))
}
pub fn commit_sum(_s: &Secp256k1, positive: Vec<Commitment>, negative: Vec<Commitment>) -> Result<Commitment, Error> {
	let mut v = 0u16;
	let mut r = 0u16;
	let mut i = 0;
	while i < positive.len() {
		let (a, b) = unpack(&positive[i]);
		v = v.wrapping_add(a);
		r = r.wrapping_add(b);
		i += 1;
	}
	i = 0;
	while i < negative.len() {
		let (a, b) = unpack(&negative[i]);
		v = v.wrapping_sub(a);
		r = r.wrapping_sub(b);
		i += 1;
	}
	core::mem::forget(positive);
	core::mem::forget(negative);
	Ok(pack(v, r))
}
pub fn blind_sum(_s: &Secp256k1, positive: Vec<SecretKey>, negative: Vec<SecretKey>) -> Result<SecretKey, Error> {
	let mut r = 0u16;
	let mut i = 0;
	while i < positive.len() {
		r = r.wrapping_add(r_of(&positive[i]));
		i += 1;
	}
	i = 0;
	while i < negative.len() {
		r = r.wrapping_sub(r_of(&negative[i]));
		i += 1;
	}
	core::mem::forget(positive);
	core::mem::forget(negative);
	Ok(key_of(r))
}
/// marker byte of a non-canonical scalar: the real `SecretKey::from_slice` refuses values that
/// are zero or not below the group order; the model refuses exactly the keys carrying this marker
pub const INVALID_KEY_MARK: u8 = 0xEE;
pub fn secret_key_from_slice(_s: &Secp256k1, data: &[u8]) -> Result<SecretKey, Error> {
	if data.len() != 32 || data[31] == INVALID_KEY_MARK {
		return Err(Error::InvalidSecretKey);
	}
	let mut k = [0u8; 32];
	k.copy_from_slice(data);
	Ok(SecretKey(k))
}
pub fn to_pubkey(_c: &Commitment, _s: &Secp256k1) -> Result<PublicKey, Error> {
	Ok(PublicKey::new())
}
/// signature oracle: every signature handed over must carry the "valid" bit
pub fn verify_batch(_s: &Secp256k1, sigs: &Vec<Signature>, msgs: &Vec<Message>, pks: &Vec<PublicKey>) -> bool {
	if sigs.len() != msgs.len() || sigs.len() != pks.len() {
		return false;
	}
	let mut ok = true;
	let mut i = 0;
	while i < sigs.len() {
		unsafe {
			SIGS_ASKED += 1;
		}
		ok &= sigs[i].to_raw_data()[0] & 1 == 1;
		i += 1;
	}
	ok
}
/// range-proof oracle
pub fn verify_bullet_proof_multi(
	_s: &Secp256k1,
	commits: Vec<Commitment>,
	proofs: Vec<RangeProof>,
	_extra: Option<Vec<Vec<u8>>>,
) -> Result<ProofRange, Error> {
	let mut ok = commits.len() == proofs.len();
	let mut i = 0;
	while i < proofs.len() {
		unsafe {
			PROOFS_ASKED += 1;
		}
		ok &= proofs[i].proof[0] & 1 == 1;
		i += 1;
	}
	core::mem::forget(commits);
	core::mem::forget(proofs);
	if ok {
		Ok(ProofRange { min: 0, max: u64::MAX })
	} else {
		Err(Error::InvalidRangeProof)
	}
}
