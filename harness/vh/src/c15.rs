//! C15 — the unspent-output bitmap commitment is path independent (at the accumulator):
//! updating an accumulator incrementally (`apply`) gives the same MMR, hence the same root, as
//! building it from scratch (`init`) over the resulting set.
base_uses!();
use crate::{env, nd};
use grin_chain::txhashset::BitmapAccumulator;

const fn parse_env(s: Option<&str>, default: u64) -> u64 {
	match s {
		Some(s) => {
			let b = s.as_bytes();
			let mut v = 0u64;
			let mut i = 0;
			while i < b.len() {
				v = v * 10 + (b[i] - b'0') as u64;
				i += 1;
			}
			v
		}
		None => default,
	}
}
/// chunk (1024 bits each) of the bit that stays set, of the bit that changes, and chunk count
const CA: u64 = parse_env(option_env!("VH_CA"), 0);
const CB: u64 = parse_env(option_env!("VH_CB"), 1);
const NCH: u64 = parse_env(option_env!("VH_NCH"), 2);
/// 0: bit b becomes unspent (created / un-spent by a rewind); 1: bit b becomes spent
const DIR: u64 = parse_env(option_env!("VH_DIR"), 0);

proof! {
	[hash_mix, rand, bitmap, clock] fn apply_equals_init() {
		// offsets inside the chunks are symbolic; which chunks are touched is concrete per query
		let a_off: u64 = nd::any();
		let b_off: u64 = nd::any();
		nd::assume(a_off < 1024 && b_off < 1024);
		let a = CA * 1024 + a_off;
		let b = CB * 1024 + b_off;
		nd::assume(a != b);
		if CA == CB {
			nd::assume(a < b);
		}
		let size = NCH * 1024;
		let both: Vec<u64> = if a < b { vec![a, b] } else { vec![b, a] };
		let (s0, s1): (Vec<u64>, Vec<u64>) = if DIR == 0 { (vec![a], both.clone()) } else { (both.clone(), vec![a]) };
		let mut acc = BitmapAccumulator::new();
		check!(acc.init(s0, size).is_ok(), "init");
		// what Extension::apply_to_bitmap_accumulator passes: the changed indices, and the unspent
		// indices from the start of the first affected chunk on
		let from = BitmapAccumulator::chunk_start_idx(b);
		let tail: Vec<u64> = s1.iter().cloned().filter(|&x| x >= from).collect();
		check!(acc.apply(vec![b], tail, size).is_ok(), "apply");
		let mut fresh = BitmapAccumulator::new();
		check!(fresh.init(s1, size).is_ok(), "init of the resulting set");
		check!(acc.root() == fresh.root(), "incrementally updated accumulator commits to the same root as one built from scratch");
		cover!(b_off == 1023, "bit at the end of its chunk");
		cover!(b_off == 0, "bit at the start of its chunk");
		core::mem::forget(acc);
		core::mem::forget(fresh);
	}
}

pub const HARNESSES: &[(&str, fn())] = &[("c15::apply_equals_init", apply_equals_init)];
