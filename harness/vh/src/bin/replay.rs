//! Native replay of a Kani counterexample against the real (unstubbed) grin code.
//!   replay <harness> <values-file>
//! values-file: one line per draw, space separated decimal bytes (empty line = zero-length).
//! exit 0: harness ran to the end, no panic (counterexample does NOT reproduce)
//! exit 101 / abort: panic => reproduces;  exit 3: replay mismatch (vector does not fit)
#[cfg(kani)]
fn main() {}

#[cfg(not(kani))]
fn main() {
	use std::io::Read;
	let args: Vec<String> = std::env::args().collect();
	if args.len() < 3 {
		eprintln!("usage: replay <harness> <values-file>");
		std::process::exit(2);
	}
	let mut s = String::new();
	std::fs::File::open(&args[2])
		.expect("values file")
		.read_to_string(&mut s)
		.unwrap();
	let vals: Vec<Vec<u8>> = s
		.lines()
		.map(|l| {
			l.split_whitespace()
				.map(|t| t.parse::<u8>().expect("byte"))
				.collect()
		})
		.collect();
	vh::nd::install(vals);
	for (name, f) in vh::registry() {
		if name == args[1] {
			f();
			println!("REPLAY-COMPLETED-WITHOUT-FAILURE");
			return;
		}
	}
	eprintln!("unknown harness {}", args[1]);
	std::process::exit(2);
}
