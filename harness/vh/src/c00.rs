//! A trivial harness used only to build the dependency graph in the base target directory
//! (every real obligation is then compiled in its own slot, so no query ever reads goto
//! binaries from the shared base directory).
base_uses!();
proof! {
	fn noop() {
		let x: u8 = crate::nd::any();
		check!(x as u16 + 1 > 0, "trivial");
	}
}
pub const HARNESSES: &[(&str, fn())] = &[("c00::noop", noop)];
