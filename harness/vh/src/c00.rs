//! A trivial harness used only to build the dependency graph in the base target directory
//! (every real obligation is then compiled in its own slot, so no query ever reads goto
//! binaries from the shared base directory).
base_uses!();
proof! {
	fn noop() {
		let x: u8 = crate::nd::any();
		check!(x as u16 + 1 > 0, "trivial");
	}
}
pub const HARNESSES: &[(&str, fn())] = &[("c00::noop", noop)];

use grin_core::core::hash::Hashed;
proof! {
	[hash_ideal] fn ideal_hash_probe() {
		// micro-benchmark of the ideal-hash stub: three hashes, equal inputs <=> equal digests
		let a: u64 = crate::nd::any();
		let b: u64 = crate::nd::any();
		let ha = a.hash();
		let hb = b.hash();
		let ha2 = a.hash();
		check!(ha == ha2, "same input same digest");
		check!((a == b) == (ha == hb), "injective");
	}
}
