//! C05 family A — cycle verification accepts exactly the simple cycles, for every graph.
//! The hash that seeds the graph is replaced by an arbitrary function (E5): every call of
//! `siphash24` returns the next value of a symbolic table, so the verdict covers every
//! assignment of endpoints to the nonces, not only those some header happens to hash to.
//! (Sound because `verify` hashes a strictly ascending, in-range prefix: no input repeats.)
base_uses!();
use crate::{env, nd};
use grin_core::pow::{CuckatooContext, PoWContext, Proof};

const fn parse_env(s: Option<&str>, default: u64) -> u64 {
	match s {
		Some(s) => {
			let b = s.as_bytes();
			let mut v = 0u64;
			let mut i = 0;
			while i < b.len() {
				v = v * 10 + (b[i] - b'0') as u64;
				i += 1;
			}
			v
		}
		None => default,
	}
}
/// proof size of this query
const N: usize = parse_env(option_env!("VH_N"), 4) as usize;
const EB: u8 = 10;

#[cfg(kani)]
pub mod e5 {
	pub static mut TAB: [u64; 16] = [0; 16];
	pub static mut CALLS: usize = 0;
	pub fn siphash24(_v: &[u64; 4], _nonce: u64) -> u64 {
		unsafe {
			let k = CALLS;
			kani::assume(k < 16);
			CALLS = k + 1;
			TAB[k]
		}
	}
	pub fn proofsize() -> usize {
		super::N
	}
	/// cuckaroo family: one 64-bit value per nonce, from which the verifier cuts both endpoints
	pub fn siphash_block(_v: &[u64; 4], _nonce: u64, _rot_e: u8, _xor_all: bool) -> u64 {
		unsafe {
			let k = CALLS;
			kani::assume(k < 16);
			CALLS = k + 1;
			TAB[k]
		}
	}
}

/// Reference (from the graph definition in the file header of cuckatoo.rs / Tromp's spec):
/// nodes come in partner pairs (x, x^1); edge a and edge b are adjacent on a side iff their
/// endpoints on that side are partners. The n edges form one simple cycle iff on each side every
/// edge has exactly one edge in its pair-class and that one sits on the partner node, and
/// alternately following the U-side and V-side matches from edge 0 returns to edge 0 after
/// exactly n steps.
fn oracle(nonces: &[u64; N], u: &[u64; N], v: &[u64; N], edge_mask: u64) -> bool {
	let mut i = 0;
	while i < N {
		if nonces[i] > edge_mask {
			return false;
		}
		if i > 0 && nonces[i] <= nonces[i - 1] {
			return false;
		}
		i += 1;
	}
	// unique partner on each side
	let mut mu = [0usize; N];
	let mut mv = [0usize; N];
	i = 0;
	while i < N {
		let mut cu = 0;
		let mut cv = 0;
		let mut j = 0;
		while j < N {
			if j != i {
				if u[j] >> 1 == u[i] >> 1 {
					cu += 1;
					mu[i] = j;
					if u[j] == u[i] {
						return false; // same node, not the partner: no edge of the cycle continues here
					}
				}
				if v[j] >> 1 == v[i] >> 1 {
					cv += 1;
					mv[i] = j;
					if v[j] == v[i] {
						return false;
					}
				}
			}
			j += 1;
		}
		if cu != 1 || cv != 1 {
			return false;
		}
		i += 1;
	}
	// walk: leave edge 0 through its u endpoint, then alternate
	let mut cur = 0usize;
	let mut side_u = true;
	let mut steps = 0;
	while steps < N {
		cur = if side_u { mu[cur] } else { mv[cur] };
		side_u = !side_u;
		steps += 1;
		if cur == 0 && steps < N {
			return false; // closed early: shorter cycle
		}
	}
	cur == 0
}

proof! {
	[bitmap]
	#[cfg_attr(kani, kani::stub(grin_core::pow::siphash::siphash24, e5::siphash24))]
	#[cfg_attr(kani, kani::stub(grin_core::global::proofsize, e5::proofsize))]
	fn cuckatoo_verify_matches_definition() {
		#[cfg(kani)]
		{
			env::set_chain_type(grin_core::global::ChainTypes::AutomatedTesting);
			let ctx = CuckatooContext::new_impl(EB, N, 1).unwrap();
			let mut nonces = [0u64; N];
			let mut u = [0u64; N];
			let mut v = [0u64; N];
			let node_mask = (1u64 << EB) - 1;
			let mut i = 0;
			while i < N {
				nonces[i] = nd::any();
				let a: u64 = nd::any();
				let b: u64 = nd::any();
				unsafe {
					e5::TAB[2 * i] = a;
					e5::TAB[2 * i + 1] = b;
				}
				u[i] = a & node_mask;
				v[i] = b & node_mask;
				i += 1;
			}
			unsafe { e5::CALLS = 0; }
			let proof = Proof { edge_bits: EB, nonces: nonces.to_vec() };
			let r = ctx.verify(&proof);
			let expect = oracle(&nonces, &u, &v, node_mask);
			check!(r.is_ok() == expect, "verify accepts exactly the simple cycles of the graph");
			cover!(r.is_ok(), "a cycle is accepted");
			cover!(r.is_err() && nonces[N - 1] <= node_mask, "a well-formed non-cycle is rejected");
			core::mem::forget(r);
			core::mem::forget(proof);
			core::mem::forget(ctx);
		}
	}
}

/// Cuckaroo (bipartite, plain node equality): the n edges form one simple cycle iff on each
/// side every edge shares its endpoint with exactly one other edge and alternately following the
/// U-side and V-side matches from edge 0 returns to edge 0 after exactly n steps.
fn oracle_cuckaroo(nonces: &[u64; N], u: &[u64; N], v: &[u64; N], edge_mask: u64) -> bool {
	let mut i = 0;
	while i < N {
		if nonces[i] > edge_mask {
			return false;
		}
		if i > 0 && nonces[i] <= nonces[i - 1] {
			return false;
		}
		i += 1;
	}
	let mut mu = [0usize; N];
	let mut mv = [0usize; N];
	i = 0;
	while i < N {
		let mut cu = 0;
		let mut cv = 0;
		let mut j = 0;
		while j < N {
			if j != i {
				if u[j] == u[i] {
					cu += 1;
					mu[i] = j;
				}
				if v[j] == v[i] {
					cv += 1;
					mv[i] = j;
				}
			}
			j += 1;
		}
		if cu != 1 || cv != 1 {
			return false;
		}
		i += 1;
	}
	let mut cur = 0usize;
	let mut side_u = true;
	let mut steps = 0;
	while steps < N {
		cur = if side_u { mu[cur] } else { mv[cur] };
		side_u = !side_u;
		steps += 1;
		if cur == 0 && steps < N {
			return false;
		}
	}
	cur == 0
}

proof! {
	[]
	#[cfg_attr(kani, kani::stub(grin_core::pow::siphash::siphash_block, e5::siphash_block))]
	#[cfg_attr(kani, kani::stub(grin_core::global::proofsize, e5::proofsize))]
	fn cuckaroo_verify_matches_definition() {
		#[cfg(kani)]
		{
			env::set_chain_type(grin_core::global::ChainTypes::AutomatedTesting);
			let ctx = grin_core::pow::new_cuckaroo_ctx(EB, N).unwrap();
			let mut nonces = [0u64; N];
			let mut u = [0u64; N];
			let mut v = [0u64; N];
			let node_mask = (1u64 << EB) - 1;
			let mut i = 0;
			while i < N {
				nonces[i] = nd::any();
				let e: u64 = nd::any();
				unsafe {
					e5::TAB[i] = e;
				}
				u[i] = e & node_mask;
				v[i] = (e >> 32) & node_mask;
				i += 1;
			}
			unsafe { e5::CALLS = 0; }
			let proof = Proof { edge_bits: EB, nonces: nonces.to_vec() };
			let r = ctx.verify(&proof);
			let expect = oracle_cuckaroo(&nonces, &u, &v, node_mask);
			check!(r.is_ok() == expect, "cuckaroo verify accepts exactly the simple cycles of the graph");
			cover!(r.is_ok(), "a cycle is accepted");
			cover!(r.is_err() && nonces[N - 1] <= node_mask, "a well-formed non-cycle is rejected");
			core::mem::forget(r);
			core::mem::forget(proof);
			core::mem::forget(ctx);
		}
	}
}

fn basic(nonces: &[u64; N], edge_mask: u64) -> bool {
	let mut i = 0;
	while i < N {
		if nonces[i] > edge_mask {
			return false;
		}
		if i > 0 && nonces[i] <= nonces[i - 1] {
			return false;
		}
		i += 1;
	}
	true
}

/// Cuckarood (directed bipartite; direction = low bit of the nonce, half of the edges each way):
/// the n edges form one simple cycle whose edges alternate direction: on each side every edge
/// shares its endpoint with exactly one other edge, that edge has the opposite direction, and
/// alternately following U- and V-side matches from the first direction-0 edge closes after
/// exactly n steps.
fn oracle_cuckarood(nonces: &[u64; N], u: &[u64; N], v: &[u64; N], edge_mask: u64) -> bool {
	if !basic(nonces, edge_mask) {
		return false;
	}
	let mut n0 = 0;
	let mut first0 = N;
	let mut i = 0;
	while i < N {
		if nonces[i] & 1 == 0 {
			if first0 == N {
				first0 = i;
			}
			n0 += 1;
		}
		i += 1;
	}
	if n0 != N / 2 {
		return false;
	}
	let mut mu = [0usize; N];
	let mut mv = [0usize; N];
	i = 0;
	while i < N {
		let mut cu = 0;
		let mut cv = 0;
		let mut j = 0;
		while j < N {
			if j != i {
				if u[j] == u[i] {
					cu += 1;
					mu[i] = j;
				}
				if v[j] == v[i] {
					cv += 1;
					mv[i] = j;
				}
			}
			j += 1;
		}
		if cu != 1 || cv != 1 {
			return false;
		}
		if (nonces[mu[i]] ^ nonces[i]) & 1 == 0 || (nonces[mv[i]] ^ nonces[i]) & 1 == 0 {
			return false;
		}
		i += 1;
	}
	let mut cur = first0;
	let mut side_u = true;
	let mut steps = 0;
	while steps < N {
		cur = if side_u { mu[cur] } else { mv[cur] };
		side_u = !side_u;
		steps += 1;
		if cur == first0 && steps < N {
			return false;
		}
	}
	cur == first0
}

/// Cuckaroom (directed, one node set): edge i leads from from[i] to to[i]; the n edges form one
/// simple directed cycle iff every edge has exactly one successor (an edge starting where it
/// ends) and following successors from edge 0 returns to edge 0 after exactly n steps.
fn oracle_cuckaroom(nonces: &[u64; N], from: &[u64; N], to: &[u64; N], edge_mask: u64) -> bool {
	if !basic(nonces, edge_mask) {
		return false;
	}
	let mut succ = [0usize; N];
	let mut i = 0;
	while i < N {
		let mut c = 0;
		let mut j = 0;
		while j < N {
			if from[j] == to[i] {
				c += 1;
				succ[i] = j;
			}
			j += 1;
		}
		if c != 1 {
			return false;
		}
		i += 1;
	}
	let mut cur = 0usize;
	let mut steps = 0;
	while steps < N {
		cur = succ[cur];
		steps += 1;
		if cur == 0 && steps < N {
			return false;
		}
	}
	cur == 0
}

/// Cuckarooz (undirected, one node set): every node touched by the n edges has degree exactly
/// two (each of the 2n endpoints equals exactly one other endpoint) and walking edge to edge
/// from edge 0 returns to it after exactly n steps.
fn oracle_cuckarooz(nonces: &[u64; N], u: &[u64; N], v: &[u64; N], edge_mask: u64) -> bool {
	if !basic(nonces, edge_mask) {
		return false;
	}
	let mut ep = [0u64; 2 * N];
	let mut i = 0;
	while i < N {
		ep[2 * i] = u[i];
		ep[2 * i + 1] = v[i];
		i += 1;
	}
	let mut m = [0usize; 2 * N];
	i = 0;
	while i < 2 * N {
		let mut c = 0;
		let mut j = 0;
		while j < 2 * N {
			if j != i && ep[j] == ep[i] {
				c += 1;
				m[i] = j;
			}
			j += 1;
		}
		if c != 1 {
			return false;
		}
		i += 1;
	}
	let mut cur = 0usize;
	let mut steps = 0;
	while steps < N {
		cur = m[cur] ^ 1;
		steps += 1;
		if cur == 0 && steps < N {
			return false;
		}
	}
	cur == 0
}

macro_rules! cuckaroo_family {
	($name:ident, $ctor:path, $node_bits:expr, $oracle:ident, $label:expr) => {
		proof! {
			[]
			#[cfg_attr(kani, kani::stub(grin_core::pow::siphash::siphash_block, e5::siphash_block))]
			#[cfg_attr(kani, kani::stub(grin_core::global::proofsize, e5::proofsize))]
			fn $name() {
				#[cfg(kani)]
				{
					env::set_chain_type(grin_core::global::ChainTypes::AutomatedTesting);
					let ctx = $ctor(EB, N).unwrap();
					let mut nonces = [0u64; N];
					let mut u = [0u64; N];
					let mut v = [0u64; N];
					let edge_mask = (1u64 << EB) - 1;
					let node_mask = (1u64 << $node_bits) - 1;
					let mut i = 0;
					while i < N {
						nonces[i] = nd::any();
						let e: u64 = nd::any();
						unsafe {
							e5::TAB[i] = e;
						}
						u[i] = e & node_mask;
						v[i] = (e >> 32) & node_mask;
						i += 1;
					}
					unsafe { e5::CALLS = 0; }
					let proof = Proof { edge_bits: EB, nonces: nonces.to_vec() };
					let r = ctx.verify(&proof);
					let expect = $oracle(&nonces, &u, &v, edge_mask);
					check!(r.is_ok() == expect, $label);
					cover!(r.is_ok(), "a cycle is accepted");
					cover!(r.is_err() && nonces[N - 1] <= edge_mask, "a well-formed non-cycle is rejected");
					core::mem::forget(r);
					core::mem::forget(proof);
					core::mem::forget(ctx);
				}
			}
		}
	};
}
cuckaroo_family!(cuckarood_verify_matches_definition, grin_core::pow::new_cuckarood_ctx, (EB - 1), oracle_cuckarood, "cuckarood verify accepts exactly the simple direction-alternating cycles of the graph");
cuckaroo_family!(cuckaroom_verify_matches_definition, grin_core::pow::new_cuckaroom_ctx, EB, oracle_cuckaroom, "cuckaroom verify accepts exactly the simple directed cycles of the graph");
cuckaroo_family!(cuckarooz_verify_matches_definition, grin_core::pow::new_cuckarooz_ctx, (EB + 1), oracle_cuckarooz, "cuckarooz verify accepts exactly the simple cycles of the graph");

pub const HARNESSES: &[(&str, fn())] = &[
	("c05a::cuckarood_verify_matches_definition", cuckarood_verify_matches_definition),
	("c05a::cuckaroom_verify_matches_definition", cuckaroom_verify_matches_definition),
	("c05a::cuckarooz_verify_matches_definition", cuckarooz_verify_matches_definition),
	("c05a::cuckatoo_verify_matches_definition", cuckatoo_verify_matches_definition),
	("c05a::cuckaroo_verify_matches_definition", cuckaroo_verify_matches_definition),
];
