//! C10 (continued) — canonical bytes for the fixed-size wire / db objects: whatever decodes from an
//! arbitrary byte string re-encodes to exactly the bytes consumed (so nothing is normalised and
//! field order / widths of reader and writer agree), at every protocol version.
base_uses!();
use crate::c10::any_version;
use crate::{env, nd};
use grin_core::ser::{self, DeserializationMode, ProtocolVersion, Readable, Writeable};

fn canonical<T: Readable + Writeable, const L: usize>() -> bool {
	let b: [u8; L] = nd::any();
	let v = any_version();
	let mut src: &[u8] = &b[..];
	let r = ser::deserialize::<T, _>(&mut src, v, DeserializationMode::default());
	let used = L - src.len();
	let ok = r.is_ok();
	if let Ok(x) = &r {
		let mut c = [0u8; L];
		let mut sink: &mut [u8] = &mut c[..];
		let w = ser::serialize(&mut sink, v, x);
		check!(w.is_ok(), "a decoded value can be written back");
		let n = L - sink.len();
		check!(n == used, "re-encoding has exactly the consumed length");
		let i: usize = nd::any();
		nd::assume(i < L);
		check!(i >= n || c[i] == b[i], "re-encoding reproduces the consumed bytes");
	}
	core::mem::forget(r);
	ok
}

macro_rules! canonical_harness {
	($name:ident, $t:ty, $l:expr) => {
		proof! { fn $name() {
			env::set_chain_type(grin_core::global::ChainTypes::AutomatedTesting);
			env::set_nrd_enabled(true);
			let ok = canonical::<$t, $l>();
			cover!(ok, "some byte string decodes");
		} }
	};
}

canonical_harness!(ping_canonical, grin_p2p::msg::Ping, 16);
canonical_harness!(pong_canonical, grin_p2p::msg::Pong, 16);
canonical_harness!(ban_reason_canonical, grin_p2p::msg::BanReason, 4);
canonical_harness!(get_peer_addrs_canonical, grin_p2p::msg::GetPeerAddrs, 4);
canonical_harness!(txhashset_request_canonical, grin_p2p::msg::TxHashSetRequest, 40);
canonical_harness!(txhashset_archive_canonical, grin_p2p::msg::TxHashSetArchive, 48);
canonical_harness!(segment_request_canonical, grin_p2p::msg::SegmentRequest, 41);
canonical_harness!(segment_identifier_canonical, grin_core::core::pmmr::segment::SegmentIdentifier, 9);
canonical_harness!(tip_canonical, grin_chain::Tip, 80);
canonical_harness!(commit_pos_canonical, grin_chain::types::CommitPos, 16);
canonical_harness!(header_version_canonical, grin_core::core::block::HeaderVersion, 2);
canonical_harness!(output_identifier_canonical, grin_core::core::OutputIdentifier, 34);
canonical_harness!(txkernel_canonical, grin_core::core::TxKernel, 114);
canonical_harness!(difficulty_canonical, grin_core::pow::Difficulty, 8);
canonical_harness!(block_sums_canonical, grin_core::core::BlockSums, 66);
canonical_harness!(short_id_canonical, grin_core::core::id::ShortId, 6);
canonical_harness!(nrd_list_wrapper_canonical, grin_chain::linked_list::ListWrapper<grin_chain::types::CommitPos>, 17);
canonical_harness!(nrd_list_entry_canonical, grin_chain::linked_list::ListEntry<grin_chain::types::CommitPos>, 33);

/// timestamp of this query (the conversion through chrono is division-heavy: a symbolic
/// timestamp made the query exceed 20 GB, so boundary values are enumerated, one per query)
const TS_CASE: usize = match option_env!("VH_TS") { Some(s) => (s.as_bytes()[0] - b'0') as usize, None => 0 };
const TS_VALUES: [i64; 8] = [
	0,
	1_700_000_000,
	-1,
	i64::MAX,
	i64::MIN,
	8_210_266_876_799,  // NaiveDate::MAX at midnight is 8_210_266_790_400: just above the accepted range
	8_210_266_790_400,
	-8_334_601_228_800, // NaiveDate::MIN at midnight
];

proof! {
	[zeroize] fn block_header_canonical() {
		// a whole header (AutomatedTesting: 8 nonces, edge_bits 10 => 257 bytes): never panics, and
		// whatever decodes re-encodes to the same bytes
		env::set_chain_type(grin_core::global::ChainTypes::AutomatedTesting);
		let mut b: [u8; 257] = nd::any();
		b[246] = 10; // edge_bits: the packed-nonce length depends on it (one value per query)
		b[10..18].copy_from_slice(&TS_VALUES[TS_CASE].to_be_bytes());
		let mut src: &[u8] = &b[..];
		let r = ser::deserialize::<grin_core::core::BlockHeader, _>(&mut src, ProtocolVersion(1), DeserializationMode::default());
		let used = 257 - src.len();
		if let Ok(h) = &r {
			let mut c = [0u8; 257];
			let mut sink: &mut [u8] = &mut c[..];
			ser::serialize(&mut sink, ProtocolVersion(1), h).unwrap();
			let n = 257 - sink.len();
			check!(n == used && n == 257, "header length");
			let i: usize = nd::any();
			nd::assume(i < 257);
			check!(c[i] == b[i], "a decoded header re-encodes to the same bytes");
			check!(h.timestamp.timestamp() == TS_VALUES[TS_CASE], "timestamp preserved");
		}
		cover!(r.is_ok() || TS_CASE >= 3, "a header with an ordinary timestamp decodes");
		core::mem::forget(r);
	}
}

pub const HARNESSES: &[(&str, fn())] = &[
	("c10b::ping_canonical", ping_canonical),
	("c10b::pong_canonical", pong_canonical),
	("c10b::ban_reason_canonical", ban_reason_canonical),
	("c10b::get_peer_addrs_canonical", get_peer_addrs_canonical),
	("c10b::txhashset_request_canonical", txhashset_request_canonical),
	("c10b::txhashset_archive_canonical", txhashset_archive_canonical),
	("c10b::segment_request_canonical", segment_request_canonical),
	("c10b::segment_identifier_canonical", segment_identifier_canonical),
	("c10b::tip_canonical", tip_canonical),
	("c10b::commit_pos_canonical", commit_pos_canonical),
	("c10b::header_version_canonical", header_version_canonical),
	("c10b::output_identifier_canonical", output_identifier_canonical),
	("c10b::txkernel_canonical", txkernel_canonical),
	("c10b::difficulty_canonical", difficulty_canonical),
	("c10b::block_sums_canonical", block_sums_canonical),
	("c10b::short_id_canonical", short_id_canonical),
	("c10b::nrd_list_wrapper_canonical", nrd_list_wrapper_canonical),
	("c10b::nrd_list_entry_canonical", nrd_list_entry_canonical),
	("c10b::block_header_canonical", block_header_canonical),
];
