//! C20 — the recoverability *encoding*: what is left in Rust once libsecp256k1 is taken away.
//! Key identifiers / derivation paths, the rewind message of both proof-builder generations
//! (written into a bulletproof, read back by `check_output`), and blinding-factor add / split
//! over the E7 model of the scalar group. A model keychain (the public `Keychain` trait) whose
//! `commit` is an injective packing of (wallet key, amount, key id, switch) stands for
//! "the commitment determines amount, path and mode for this wallet and no other".
base_uses!();
use crate::{env, nd};
use grin_core::libtx::proof::{LegacyProofBuilder, ProofBuild, ProofBuilder};
use grin_keychain::{BlindSum, BlindingFactor, Error, ExtKeychainPath, Identifier, Keychain, SwitchCommitmentType};
use grin_util::secp::key::{PublicKey, SecretKey};
use grin_util::secp::pedersen::{Commitment, ProofMessage};
use grin_util::secp::{self, Message, Secp256k1, Signature};

/// Model keychain: no curve arithmetic; `commit` packs its arguments injectively.
#[derive(Clone)]
pub struct ModelKeychain {
	secp: Secp256k1,
	wallet: [u8; 7],
}
// Secp256k1 holds a raw context pointer; the model never dereferences it
unsafe impl Sync for ModelKeychain {}
unsafe impl Send for ModelKeychain {}

impl ModelKeychain {
	pub fn new(wallet: [u8; 7]) -> ModelKeychain {
		#[cfg(kani)]
		let secp = crate::secp_model::fake_secp();
		#[cfg(not(kani))]
		let secp = Secp256k1::with_caps(secp::ContextFlag::None);
		ModelKeychain { secp, wallet }
	}
}

impl Keychain for ModelKeychain {
	fn from_seed(_seed: &[u8], _is_test: bool) -> Result<Self, Error> {
		unimplemented!()
	}
	fn from_mnemonic(_w: &str, _e: &str, _is_test: bool) -> Result<Self, Error> {
		unimplemented!()
	}
	fn from_random_seed(_is_test: bool) -> Result<Self, Error> {
		unimplemented!()
	}
	fn mask_master_key(&mut self, _mask: &SecretKey) -> Result<(), Error> {
		unimplemented!()
	}
	fn root_key_id() -> Identifier {
		ExtKeychainPath::new(0, 0, 0, 0, 0).to_identifier()
	}
	fn derive_key_id(depth: u8, d1: u32, d2: u32, d3: u32, d4: u32) -> Identifier {
		ExtKeychainPath::new(depth, d1, d2, d3, d4).to_identifier()
	}
	fn public_root_key(&self) -> PublicKey {
		PublicKey::new()
	}
	fn derive_key(&self, amount: u64, id: &Identifier, switch: SwitchCommitmentType) -> Result<SecretKey, Error> {
		let c = self.commit(amount, id, switch)?;
		let mut k = [0u8; 32];
		k.copy_from_slice(&c.0[1..33]);
		Ok(SecretKey(k))
	}
	fn commit(&self, amount: u64, id: &Identifier, switch: SwitchCommitmentType) -> Result<Commitment, Error> {
		let mut c = [0u8; 33];
		c[0..7].copy_from_slice(&self.wallet);
		c[7..15].copy_from_slice(&amount.to_le_bytes());
		c[15..32].copy_from_slice(&id.to_bytes());
		c[32] = u8::from(switch);
		Ok(Commitment(c))
	}
	fn blind_sum(&self, _b: &BlindSum) -> Result<BlindingFactor, Error> {
		unimplemented!()
	}
	fn sign(&self, _m: &Message, _a: u64, _id: &Identifier, _s: SwitchCommitmentType) -> Result<Signature, Error> {
		unimplemented!()
	}
	fn sign_with_blinding(&self, _m: &Message, _b: &BlindingFactor) -> Result<Signature, Error> {
		unimplemented!()
	}
	fn secp(&self) -> &Secp256k1 {
		&self.secp
	}
}

fn any_switch() -> SwitchCommitmentType {
	if nd::any::<bool>() {
		SwitchCommitmentType::Regular
	} else {
		SwitchCommitmentType::None
	}
}
fn any_path() -> ExtKeychainPath {
	let depth: u8 = nd::any();
	nd::assume(depth <= 4);
	ExtKeychainPath::new(depth, nd::any(), nd::any(), nd::any(), nd::any())
}

proof! {
	fn key_id_path_roundtrip() {
		// Identifier <-> ExtKeychainPath <-> serialized path: nothing is lost or reordered
		let depth: u8 = nd::any();
		let (d0, d1, d2, d3): (u32, u32, u32, u32) = (nd::any(), nd::any(), nd::any(), nd::any());
		let p = ExtKeychainPath::new(depth, d0, d1, d2, d3);
		let id = Identifier::from_path(&p);
		let b = id.to_bytes();
		check!(b[0] == depth, "identifier byte 0 is the depth");
		check!(b[1..5] == d0.to_be_bytes() && b[5..9] == d1.to_be_bytes() && b[9..13] == d2.to_be_bytes() && b[13..17] == d3.to_be_bytes(),
			"identifier bytes 1..17 are the four child numbers, big endian, in order");
		let q = id.to_path();
		check!(q.depth == depth, "depth survives");
		check!(u32::from(q.path[0]) == d0 && u32::from(q.path[1]) == d1 && u32::from(q.path[2]) == d2 && u32::from(q.path[3]) == d3, "child numbers survive");
		check!(Identifier::from_bytes(&b) == id, "from_bytes(to_bytes) is the identity");
		let ser = id.serialize_path();
		check!(Identifier::from_serialized_path(depth, &ser) == id, "from_serialized_path(serialize_path) is the identity");
		let last = if depth == 0 || depth > 4 { 0 } else { [d0, d1, d2, d3][depth as usize - 1] };
		if depth <= 4 {
			check!(p.last_path_index() == last, "last_path_index is the child number at the path's depth");
			let par = id.parent_path().to_path();
			if depth == 0 {
				check!(par == p, "the root has itself as parent");
			} else {
				check!(par.depth == depth - 1, "parent path is one level shorter");
				let mut i = 0;
				while i < 4 {
					let want = if i + 1 == depth as usize { 0 } else { [d0, d1, d2, d3][i] };
					check!(u32::from(par.path[i]) == want, "parent path keeps the earlier child numbers and clears the last one");
					i += 1;
				}
			}
		}
		let m = ModelKeychain::derive_key_id(depth, d0, d1, d2, d3);
		check!(m == id, "derive_key_id agrees");
	}
}

proof! {
	fn switch_commitment_type_bytes() {
		let b: u8 = nd::any();
		match SwitchCommitmentType::try_from(b) {
			Ok(s) => {
				check!(b <= 1 && u8::from(s) == b, "only 0 and 1 are switch-commitment types, and they map back to their byte");
			}
			Err(_) => {
				check!(b > 1, "0 and 1 are accepted");
			}
		}
	}
}
use core::convert::TryFrom;

/// stub for the one FFI call in `ProofBuilder::new` (serialising the public root key)
#[cfg(kani)]
pub fn pubkey_serialize_vec(_pk: &PublicKey, _s: &Secp256k1, _c: bool) -> arrayvec::ArrayVec<u8, { secp::constants::PUBLIC_KEY_SIZE }> {
	let mut v = arrayvec::ArrayVec::new();
	let mut i = 0;
	while i < 33 {
		v.push(7u8);
		i += 1;
	}
	v
}

fn check_builder<B: ProofBuild>(b: &B, kc: &ModelKeychain, other_commit_builder: Option<&B>, legacy: bool) {
	let secp = kc.secp();
	let amount: u64 = nd::any();
	let path = any_path();
	let id = path.to_identifier();
	let switch = if legacy { SwitchCommitmentType::Regular } else { any_switch() };
	if legacy {
		// the legacy scheme only ever wrote depth-3 paths with regular switch commitments
		nd::assume(path.depth == 3);
	}
	let commit = kc.commit(amount, &id, switch).unwrap();
	let msg = b.proof_message(secp, &id, switch).unwrap();
	check!(msg.len() == 20, "rewind message is 20 bytes");
	// (1) own output: exactly amount, path and mode come back
	let got = b.check_output(secp, &commit, amount, ProofMessage::from_bytes(msg.as_bytes())).unwrap();
	check!(got == Some((id.clone(), switch)), "rewinding the wallet's own output recovers exactly the key id and switch mode");
	// (2) any single corrupted message byte recovers nothing (or fails): reserved bytes, wallet
	// type, switch byte, depth, path
	let k: u8 = nd::any();
	nd::assume(k < 20);
	let x: u8 = nd::any();
	let mut m2 = [0u8; 20];
	m2.copy_from_slice(msg.as_bytes());
	nd::assume(x != m2[k as usize]);
	m2[k as usize] = x;
	let got2 = b.check_output(secp, &commit, amount, ProofMessage::from_bytes(&m2)).unwrap();
	if !legacy && k == 3 && core::cmp::min(x, 4) == path.depth {
		// the depth byte is read as min(byte, 4): depth 4 written as 5..=255 denotes the same path
		check!(got2 == Some((id.clone(), switch)), "an over-long depth byte still denotes the depth-4 path");
	} else {
		check!(got2.is_none(), "a message differing in any byte recovers nothing for this commitment");
	}
	// (3) another amount recovers nothing
	let a2: u64 = nd::any();
	nd::assume(a2 != amount);
	let got3 = b.check_output(secp, &commit, a2, ProofMessage::from_bytes(msg.as_bytes())).unwrap();
	check!(got3.is_none(), "another amount recovers nothing");
	// (4) messages of another length are refused
	let got4 = b.check_output(secp, &commit, amount, ProofMessage::from_bytes(&m2[..19])).unwrap();
	check!(got4.is_none(), "a 19-byte message recovers nothing");
	// (5) another wallet recovers nothing
	if let Some(o) = other_commit_builder {
		let got5 = o.check_output(secp, &commit, amount, ProofMessage::from_bytes(msg.as_bytes())).unwrap();
		check!(got5.is_none(), "another wallet's builder recovers nothing");
	}
	cover!(path.depth == 4, "depth 4");
	cover!(path.depth == 0, "depth 0");
}

proof! {
	[hash_mix, secp] #[cfg_attr(kani, kani::stub(grin_util::secp::key::PublicKey::serialize_vec, crate::c20::pubkey_serialize_vec))] fn proof_builder_rewind_message() {
		let w1: [u8; 7] = nd::any();
		let w2: [u8; 7] = nd::any();
		nd::assume(w1 != w2);
		let kc = ModelKeychain::new(w1);
		let kc2 = ModelKeychain::new(w2);
		{
			let b = ProofBuilder::new(&kc);
			let b2 = ProofBuilder::new(&kc2);
			check_builder(&b, &kc, Some(&b2), false);
			core::mem::forget(b);
			core::mem::forget(b2);
		}
		core::mem::forget(kc);
		core::mem::forget(kc2);
	}
}

proof! {
	[hash_mix, secp] fn legacy_proof_builder_rewind_message() {
		let w1: [u8; 7] = nd::any();
		let w2: [u8; 7] = nd::any();
		nd::assume(w1 != w2);
		let kc = ModelKeychain::new(w1);
		let kc2 = ModelKeychain::new(w2);
		{
			let b = LegacyProofBuilder::new(&kc);
			let b2 = LegacyProofBuilder::new(&kc2);
			check_builder(&b, &kc, Some(&b2), true);
			core::mem::forget(b);
			core::mem::forget(b2);
		}
		core::mem::forget(kc);
		core::mem::forget(kc2);
	}
}

proof! {
	[secp, zeroize] fn blinding_factor_split() {
		// BlindingFactor::split over the scalar group (E7 model under Kani, real libsecp256k1 in
		// the native replay): the second part is whole - first part
		use grin_util::secp::key::SecretKey;
		let scalar = |v: u16| {
			let mut b = [0u8; 32];
			b[0] = v as u8;
			b[1] = (v >> 8) as u8;
			BlindingFactor::from_slice(&b)
		};
		let a: u16 = nd::any();
		let b: u16 = nd::any();
		nd::assume(a != 0 && b != 0 && a != b);
		let secp = grin_util::static_secp_instance();
		let secp = secp.lock();
		let ka = scalar(a);
		let kb = scalar(b);
		let k2 = ka.split(&kb, &secp);
		let expect = secp.blind_sum(vec![ka.secret_key(&secp).unwrap()], vec![kb.secret_key(&secp).unwrap()]).map(BlindingFactor::from_secret_key);
		check!(matches!((&k2, &expect), (Ok(x), Ok(y)) if *x == *y), "split: second part = whole - first part");
		core::mem::forget((ka, kb, k2, expect));
	}
}

proof! {
	[secp, zeroize] fn blinding_factor_add() {
		// BlindingFactor::add: the group sum whichever operand comes first (one call, operand
		// order symbolic, compared with the sum taken in a fixed order); zero is the identity
		let scalar = |v: u16| {
			let mut b = [0u8; 32];
			b[0] = v as u8;
			b[1] = (v >> 8) as u8;
			BlindingFactor::from_slice(&b)
		};
		let a: u16 = nd::any();
		let b: u16 = nd::any();
		nd::assume(a.wrapping_add(b) != 0 || (a == 0 && b == 0));
		let swap: bool = nd::any();
		let secp = grin_util::static_secp_instance();
		let secp = secp.lock();
		let ka = scalar(a);
		let kb = scalar(b);
		let s = if swap { kb.add(&ka, &secp) } else { ka.add(&kb, &secp) };
		if a == 0 {
			check!(matches!(&s, Ok(x) if *x == kb), "zero is the identity");
		} else if b == 0 {
			check!(matches!(&s, Ok(x) if *x == ka), "zero is the identity (right)");
		} else {
			let expect = secp.blind_sum(vec![ka.secret_key(&secp).unwrap(), kb.secret_key(&secp).unwrap()], vec![]).map(BlindingFactor::from_secret_key);
			check!(matches!((&s, &expect), (Ok(x), Ok(y)) if *x == *y), "add is the group sum in either operand order");
			core::mem::forget(expect);
		}
		cover!(a == 0 && b != 0, "zero operand");
		cover!(swap && a != 0 && b != 0, "operands swapped");
		core::mem::forget((ka, kb, s));
	}
}

pub const HARNESSES: &[(&str, fn())] = &[
	("c20::key_id_path_roundtrip", key_id_path_roundtrip),
	("c20::switch_commitment_type_bytes", switch_commitment_type_bytes),
	("c20::proof_builder_rewind_message", proof_builder_rewind_message),
	("c20::legacy_proof_builder_rewind_message", legacy_proof_builder_rewind_message),
	("c20::blinding_factor_split", blinding_factor_split),
	("c20::blinding_factor_add", blinding_factor_add),
];
