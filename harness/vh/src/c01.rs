//! C01 — accepted transactions balance (transaction level, under the algebraic model E7).
base_uses!();
use crate::{env, nd};
use grin_core::core::committed::Committed;
use grin_core::core::transaction::{FeeFields, KernelFeatures, OutputFeatures, Weighting};
use grin_core::core::{Inputs, Output, OutputIdentifier, Transaction, TransactionBody, TxKernel};
use grin_core::core::transaction::CommitWrapper;
use grin_keychain::BlindingFactor;
use grin_util::secp::pedersen::{Commitment, RangeProof};
use grin_util::secp::Signature;

#[cfg(kani)]
use crate::secp_model as m;

#[cfg(kani)]
mod k {
	use super::*;

	pub struct Elem {
		pub v: u16,
		pub r: u16,
	}
	pub fn any_elem() -> (Commitment, u16, u16) {
		let v: u16 = nd::any();
		let r: u16 = nd::any();
		nd::assume(v != 0 || r != 0);
		(m::pack(v, r), v, r)
	}
	pub fn proof(valid: bool) -> RangeProof {
		let mut p = RangeProof::zero();
		p.proof[0] = valid as u8;
		p.plen = 675;
		p
	}
	pub fn sig(valid: bool) -> Signature {
		let mut s = [0u8; 64];
		s[0] = valid as u8;
		Signature::from_raw_data(&s).unwrap()
	}
	pub fn fee_fields(fee: u64, shift: u64) -> FeeFields {
		// via the reader: accepts any u64 (as the wire does)
		let raw = (shift << 40) | fee;
		let b = raw.to_be_bytes();
		grin_core::ser::deserialize_default(&mut &b[..]).unwrap()
	}
	/// a non-coinbase kernel feature set with symbolic fee
	pub fn any_features(allow_coinbase: bool) -> (KernelFeatures, u64) {
		let tag: u8 = nd::any();
		nd::assume(tag < 3);
		let fee: u64 = nd::any();
		nd::assume(fee < (1 << 40));
		let shift: u64 = nd::any();
		nd::assume(shift < 16);
		match tag {
			0 => (KernelFeatures::Plain { fee: fee_fields(fee, shift) }, fee),
			1 => (KernelFeatures::HeightLocked { fee: fee_fields(fee, shift), lock_height: nd::any() }, fee),
			_ => {
				nd::assume(allow_coinbase);
				(KernelFeatures::Coinbase, 0)
			}
		}
	}
}

proof! {
	[secp, hash_mix] fn kernel_sums_iff_equation_1_2_1() {
		// real Committed::verify_kernel_sums on a 1 input / 2 outputs / 1 kernel body:
		// Ok  <=>  out1 + out2 - in + overage == kernel + offset   (both components, mod 2^16)
		#[cfg(kani)]
		{
			let (ci, vi, ri) = k::any_elem();
			let (c1, v1, r1) = k::any_elem();
			let (c2, v2, r2) = k::any_elem();
			let (ck, vk, rk) = k::any_elem();
			let off: u16 = nd::any();
			let overage: i64 = nd::any();
			nd::assume(overage > -(1 << 40) && overage < (1 << 40));
			let body = TransactionBody {
				inputs: Inputs::CommitOnly(vec![CommitWrapper::from(ci)]),
				outputs: vec![
					Output::new(OutputFeatures::Plain, c1, k::proof(true)),
					Output::new(OutputFeatures::Plain, c2, k::proof(true)),
				],
				kernels: vec![TxKernel { features: KernelFeatures::Plain { fee: k::fee_fields(1, 0) }, excess: ck, excess_sig: k::sig(true) }],
			};
			let offset = BlindingFactor::from_secret_key(m::key_of(off));
			let r = body.verify_kernel_sums(overage, offset);
			let ov = overage as u16; // two's complement: adding a negative overage = subtracting
			let lhs_v = v1.wrapping_add(v2).wrapping_sub(vi).wrapping_add(ov);
			let lhs_r = r1.wrapping_add(r2).wrapping_sub(ri);
			let eq = lhs_v == vk && lhs_r == rk.wrapping_add(off);
			check!(r.is_ok() == eq, "verify_kernel_sums accepts exactly when the balance equation holds");
			cover!(r.is_ok(), "accepted");
			cover!(r.is_err(), "rejected");
			core::mem::forget(r);
			core::mem::forget(body);
		}
	}
}

proof! {
	[secp, hash_mix] fn tx_validate_sound_1_2_1() {
		// Transaction::validate == Ok  =>  equation with the fee as the only extra value,
		// every kernel signature and every range proof consulted and valid, no coinbase features
		#[cfg(kani)]
		{
			env::set_chain_type(grin_core::global::ChainTypes::Mainnet);
			let (ci, vi, ri) = k::any_elem();
			let (c1, v1, r1) = k::any_elem();
			let (c2, v2, r2) = k::any_elem();
			let (ck, vk, rk) = k::any_elem();
			let off: u16 = nd::any();
			let (feat, fee) = k::any_features(true);
			let p1: bool = nd::any();
			let p2: bool = nd::any();
			let s1: bool = nd::any();
			let f1: bool = nd::any();
			let f2: bool = nd::any();
			let of = |c: bool| if c { OutputFeatures::Coinbase } else { OutputFeatures::Plain };
			let tx = Transaction {
				offset: BlindingFactor::from_secret_key(m::key_of(off)),
				body: TransactionBody {
					inputs: Inputs::CommitOnly(vec![CommitWrapper::from(ci)]),
					outputs: vec![Output::new(of(f1), c1, k::proof(p1)), Output::new(of(f2), c2, k::proof(p2))],
					kernels: vec![TxKernel { features: feat, excess: ck, excess_sig: k::sig(s1) }],
				},
			};
			unsafe {
				m::SIGS_ASKED = 0;
				m::PROOFS_ASKED = 0;
			}
			let r = tx.validate(Weighting::AsTransaction);
			if r.is_ok() {
				let lhs_v = v1.wrapping_add(v2).wrapping_sub(vi).wrapping_add(fee as u16);
				let lhs_r = r1.wrapping_add(r2).wrapping_sub(ri);
				check!(lhs_v == vk && lhs_r == rk.wrapping_add(off), "accepted => outputs + fee - inputs == kernel excess + offset");
				check!(s1, "accepted => the kernel signature is valid");
				check!(p1 && p2, "accepted => every output's range proof is valid");
				check!(unsafe { m::SIGS_ASKED } == 1 && unsafe { m::PROOFS_ASKED } == 2, "every signature and proof was handed to the verifier");
				check!(!f1 && !f2, "accepted => no coinbase output in a transaction");
				check!(!matches!(feat, KernelFeatures::Coinbase), "accepted => no coinbase kernel in a transaction");
			}
			cover!(r.is_ok(), "a transaction is accepted");
			cover!(r.is_err(), "a transaction is rejected");
			core::mem::forget(r);
			core::mem::forget(tx);
		}
	}
}

pub const HARNESSES: &[(&str, fn())] = &[
	("c01::kernel_sums_iff_equation_1_2_1", kernel_sums_iff_equation_1_2_1),
	("c01::tx_validate_sound_1_2_1", tx_validate_sound_1_2_1),
];
