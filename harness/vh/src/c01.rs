//! C01 — accepted transactions balance (transaction level, under the algebraic model E7).
base_uses!();
use crate::{env, nd};
use grin_core::core::committed::Committed;
use grin_core::core::transaction::{FeeFields, KernelFeatures, OutputFeatures, Weighting};
use grin_core::core::{Inputs, Output, OutputIdentifier, Transaction, TransactionBody, TxKernel};
use grin_core::core::transaction::CommitWrapper;
use grin_keychain::BlindingFactor;
use grin_util::secp::pedersen::{Commitment, RangeProof};
use grin_util::secp::Signature;

#[cfg(kani)]
use crate::secp_model as m;

#[cfg(kani)]
mod k {
	use super::*;

	pub struct Elem {
		pub v: u16,
		pub r: u16,
	}
	pub fn any_elem() -> (Commitment, u16, u16) {
		let v: u16 = nd::any();
		let r: u16 = nd::any();
		nd::assume(v != 0 || r != 0);
		(m::pack(v, r), v, r)
	}
	pub fn proof(valid: bool) -> RangeProof {
		let mut p = RangeProof::zero();
		p.proof[0] = valid as u8;
		p.plen = 675;
		p
	}
	pub fn sig(valid: bool) -> Signature {
		let mut s = [0u8; 64];
		s[0] = valid as u8;
		Signature::from_raw_data(&s).unwrap()
	}
	pub fn fee_fields(fee: u64, shift: u64) -> FeeFields {
		// via the reader: accepts any u64 (as the wire does)
		let raw = (shift << 40) | fee;
		let b = raw.to_be_bytes();
		grin_core::ser::deserialize_default(&mut &b[..]).unwrap()
	}
	/// a non-coinbase kernel feature set with symbolic fee
	pub fn any_features(allow_coinbase: bool) -> (KernelFeatures, u64) {
		let tag: u8 = nd::any();
		nd::assume(tag < 3);
		let fee: u64 = nd::any();
		nd::assume(fee < (1 << 40));
		let shift: u64 = nd::any();
		nd::assume(shift < 16);
		match tag {
			0 => (KernelFeatures::Plain { fee: fee_fields(fee, shift) }, fee),
			1 => (KernelFeatures::HeightLocked { fee: fee_fields(fee, shift), lock_height: nd::any() }, fee),
			_ => {
				nd::assume(allow_coinbase);
				(KernelFeatures::Coinbase, 0)
			}
		}
	}
}

proof! {
	[secp, hash_mix] fn kernel_sums_iff_equation_1_2_1() {
		// real Committed::verify_kernel_sums on a 1 input / 2 outputs / 1 kernel body:
		// Ok  <=>  out1 + out2 - in + overage == kernel + offset   (both components, mod 2^16)
		#[cfg(kani)]
		{
			let (ci, vi, ri) = k::any_elem();
			let (c1, v1, r1) = k::any_elem();
			let (c2, v2, r2) = k::any_elem();
			let (ck, vk, rk) = k::any_elem();
			let off: u16 = nd::any();
			// the offset may also be a byte string that is not a valid scalar (it comes off the
			// wire unvalidated): then validation must fail, not silently ignore the offset
			let off_invalid: bool = nd::any();
			let overage: i64 = nd::any();
			nd::assume(overage > -(1 << 40) && overage < (1 << 40));
			let body = TransactionBody {
				inputs: Inputs::CommitOnly(vec![CommitWrapper::from(ci)]),
				outputs: vec![
					Output::new(OutputFeatures::Plain, c1, k::proof(true)),
					Output::new(OutputFeatures::Plain, c2, k::proof(true)),
				],
				kernels: vec![TxKernel { features: KernelFeatures::Plain { fee: k::fee_fields(1, 0) }, excess: ck, excess_sig: k::sig(true) }],
			};
			let mut ob = m::key_of(off).0;
			if off_invalid {
				ob[31] = m::INVALID_KEY_MARK;
			}
			let offset = BlindingFactor::from_slice(&ob);
			let r = body.verify_kernel_sums(overage, offset);
			let ov = overage as u16; // two's complement: adding a negative overage = subtracting
			let lhs_v = v1.wrapping_add(v2).wrapping_sub(vi).wrapping_add(ov);
			let lhs_r = r1.wrapping_add(r2).wrapping_sub(ri);
			let eq = lhs_v == vk && lhs_r == rk.wrapping_add(off);
			check!(r.is_ok() == (eq && !off_invalid), "verify_kernel_sums accepts exactly when the balance equation holds and the offset is a valid scalar");
			cover!(off_invalid && r.is_err(), "non-scalar offset refused");
			cover!(r.is_ok(), "accepted");
			cover!(r.is_err(), "rejected");
			core::mem::forget(r);
			core::mem::forget(body);
		}
	}
}

const fn parse_env(s: Option<&str>, default: u64) -> u64 {
	match s {
		Some(s) => {
			let b = s.as_bytes();
			let mut v = 0u64;
			let mut i = 0;
			while i < b.len() {
				v = v * 10 + (b[i] - b'0') as u64;
				i += 1;
			}
			v
		}
		None => default,
	}
}
/// body shape of this query
const NIN: usize = parse_env(option_env!("VH_NIN"), 1) as usize;
const NOUT: usize = parse_env(option_env!("VH_NOUT"), 2) as usize;
const NK: usize = parse_env(option_env!("VH_NK"), 1) as usize;

proof! {
	[secp, hash_mix] fn tx_validate_sound() {
		// Transaction::validate == Ok  =>  equation with the fee as the only extra value,
		// every kernel signature and every range proof consulted and valid, no coinbase features.
		// Shape (NIN inputs, NOUT outputs, NK kernels) is concrete per query.
		#[cfg(kani)]
		{
			env::set_chain_type(grin_core::global::ChainTypes::Mainnet);
			let of = |c: bool| if c { OutputFeatures::Coinbase } else { OutputFeatures::Plain };
			let mut sv = 0u16; // sum of values: outputs - inputs
			let mut sr = 0u16;
			let mut inputs = Vec::new();
			let mut i = 0;
			while i < NIN {
				let (c, v, r) = k::any_elem();
				sv = sv.wrapping_sub(v);
				sr = sr.wrapping_sub(r);
				inputs.push(CommitWrapper::from(c));
				i += 1;
			}
			let mut outputs = Vec::new();
			let mut all_proofs = true;
			let mut any_cb_out = false;
			i = 0;
			while i < NOUT {
				let (c, v, r) = k::any_elem();
				sv = sv.wrapping_add(v);
				sr = sr.wrapping_add(r);
				let p: bool = nd::any();
				let f: bool = nd::any();
				all_proofs &= p;
				any_cb_out |= f;
				outputs.push(Output::new(of(f), c, k::proof(p)));
				i += 1;
			}
			let mut kernels = Vec::new();
			let mut kv = 0u16;
			let mut kr = 0u16;
			let mut fees = 0u64;
			let mut all_sigs = true;
			let mut any_cb_kern = false;
			i = 0;
			while i < NK {
				let (c, v, r) = k::any_elem();
				kv = kv.wrapping_add(v);
				kr = kr.wrapping_add(r);
				let (feat, fee) = k::any_features(true);
				fees += fee;
				any_cb_kern |= matches!(feat, KernelFeatures::Coinbase);
				let s: bool = nd::any();
				all_sigs &= s;
				kernels.push(TxKernel { features: feat, excess: c, excess_sig: k::sig(s) });
				i += 1;
			}
			let off: u16 = nd::any();
			let tx = Transaction {
				offset: BlindingFactor::from_secret_key(m::key_of(off)),
				body: TransactionBody { inputs: Inputs::CommitOnly(inputs), outputs, kernels },
			};
			unsafe {
				m::SIGS_ASKED = 0;
				m::PROOFS_ASKED = 0;
			}
			let r = tx.validate(Weighting::AsTransaction);
			if r.is_ok() {
				check!(sv.wrapping_add(fees as u16) == kv && sr == kr.wrapping_add(off), "accepted => outputs + fee - inputs == kernel excesses + offset");
				check!(all_sigs, "accepted => every kernel signature is valid");
				check!(all_proofs, "accepted => every output's range proof is valid");
				check!(unsafe { m::SIGS_ASKED } == NK && unsafe { m::PROOFS_ASKED } == NOUT, "every signature and proof was handed to the verifier");
				check!(!any_cb_out, "accepted => no coinbase output in a transaction");
				check!(!any_cb_kern, "accepted => no coinbase kernel in a transaction");
			}
			cover!(r.is_ok(), "a transaction is accepted");
			cover!(r.is_err(), "a transaction is rejected");
			core::mem::forget(r);
			core::mem::forget(tx);
		}
	}
}

proof! {
	[secp, hash_mix] fn body_validate_consults_oracles() {
		// TransactionBody::validate == Ok => every kernel signature and every range proof was
		// handed to the verifier and is valid, whatever the body shape (including no outputs)
		#[cfg(kani)]
		{
			env::set_chain_type(grin_core::global::ChainTypes::Mainnet);
			let mut inputs = Vec::new();
			let mut i = 0;
			while i < NIN {
				let (c, _, _) = k::any_elem();
				inputs.push(CommitWrapper::from(c));
				i += 1;
			}
			let mut outputs = Vec::new();
			let mut all_proofs = true;
			i = 0;
			while i < NOUT {
				let (c, _, _) = k::any_elem();
				let p: bool = nd::any();
				all_proofs &= p;
				// plain or coinbase-flagged: a block body carries both, and both need their proof
				let cb: bool = nd::any();
				outputs.push(Output::new(if cb { OutputFeatures::Coinbase } else { OutputFeatures::Plain }, c, k::proof(p)));
				i += 1;
			}
			let mut kernels = Vec::new();
			let mut all_sigs = true;
			i = 0;
			while i < NK {
				let (c, _, _) = k::any_elem();
				let (feat, _) = k::any_features(true);
				let s: bool = nd::any();
				all_sigs &= s;
				kernels.push(TxKernel { features: feat, excess: c, excess_sig: k::sig(s) });
				i += 1;
			}
			let body = TransactionBody { inputs: Inputs::CommitOnly(inputs), outputs, kernels };
			unsafe {
				m::SIGS_ASKED = 0;
				m::PROOFS_ASKED = 0;
			}
			let r = body.validate(Weighting::AsTransaction);
			if r.is_ok() {
				check!(all_sigs, "accepted => every kernel signature is valid");
				check!(all_proofs, "accepted => every output's range proof is valid");
				check!(unsafe { m::SIGS_ASKED } == NK, "every kernel signature was handed to the verifier");
				check!(unsafe { m::PROOFS_ASKED } == NOUT, "every range proof was handed to the verifier");
			}
			cover!(r.is_ok(), "a body is accepted");
			cover!(r.is_err(), "a body is rejected");
			core::mem::forget(r);
			core::mem::forget(body);
		}
	}
}

proof! {
	[secp, hash_mix] fn block_coinbase_sum() {
		// Block::verify_coinbase == Ok  <=>  sum(coinbase outputs) - (REWARD + fees) == sum(coinbase
		// kernels): the subsidy plus the fees collected is the only new value and it is claimed
		// exclusively by coinbase-flagged outputs and kernels. One plain + one coinbase of each.
		#[cfg(kani)]
		{
			use grin_core::core::block::{Block, BlockHeader};
			env::set_chain_type(grin_core::global::ChainTypes::Mainnet);
			let (co1, vo1, ro1) = k::any_elem();
			let (co2, vo2, ro2) = k::any_elem();
			let (ck1, vk1, rk1) = k::any_elem();
			let (ck2, vk2, rk2) = k::any_elem();
			let cb_o1: bool = nd::any();
			let cb_o2: bool = nd::any();
			let cb_k2: bool = nd::any();
			let fee: u64 = nd::any();
			nd::assume(fee < (1 << 40));
			// the fee shift only prioritises a transaction in the pool: the miner collects the whole fee
			let shift: u8 = nd::any();
			nd::assume(shift < 16);
			let of = |c: bool| if c { OutputFeatures::Coinbase } else { OutputFeatures::Plain };
			let block = Block {
				header: BlockHeader::default(),
				body: TransactionBody {
					inputs: Inputs::CommitOnly(vec![CommitWrapper::from(m::pack(1, 1))]),
					outputs: vec![Output::new(of(cb_o1), co1, k::proof(true)), Output::new(of(cb_o2), co2, k::proof(true))],
					kernels: vec![
						TxKernel { features: KernelFeatures::Plain { fee: k::fee_fields(fee, shift as u64) }, excess: ck1, excess_sig: k::sig(true) },
						TxKernel { features: if cb_k2 { KernelFeatures::Coinbase } else { KernelFeatures::Plain { fee: k::fee_fields(0, 0) } }, excess: ck2, excess_sig: k::sig(true) },
					],
				},
			};
			let r = block.verify_coinbase();
			let reward = grin_core::consensus::REWARD.wrapping_add(fee) as u16;
			let mut ov = 0u16;
			let mut or_ = 0u16;
			if cb_o1 { ov = ov.wrapping_add(vo1); or_ = or_.wrapping_add(ro1); }
			if cb_o2 { ov = ov.wrapping_add(vo2); or_ = or_.wrapping_add(ro2); }
			let (kv, kr) = if cb_k2 { (vk2, rk2) } else { (0, 0) };
			let _ = (vk1, rk1);
			let eq = ov.wrapping_sub(reward) == kv && or_ == kr;
			check!(r.is_ok() == eq, "verify_coinbase accepts exactly when coinbase outputs - (reward + fees) == coinbase kernels");
			cover!(r.is_ok() && cb_o1 && !cb_o2 && cb_k2, "one coinbase output and kernel accepted");
			cover!(r.is_err(), "rejected");
			cover!(r.is_ok() && shift > 0 && fee > 1, "accepted with a fee-shifted kernel");
			core::mem::forget(r);
			core::mem::forget(block);
		}
	}
}

proof! {
	[zeroize] fn header_overage_arithmetic() {
		// the height-determined supply: one REWARD per block (plus the genesis reward)
		use grin_core::core::block::BlockHeader;
		let mut h = BlockHeader::default();
		check!(h.overage() == -(grin_core::consensus::REWARD as i64), "a block's overage is minus one reward");
		let height: u64 = nd::any();
		nd::assume(height < (1 << 27)); // (height+1)*REWARD fits i64 below ~1.5e8
		h.height = height;
		let g: bool = nd::any();
		let n = height as i64 + g as i64;
		check!(h.total_overage(g) == -(n * grin_core::consensus::REWARD as i64), "total overage = -(height [+1]) * REWARD");
		check!(grin_core::consensus::reward(0) == grin_core::consensus::REWARD && grin_core::consensus::REWARD == 60_000_000_000, "60 grin subsidy");
		let fee: u64 = nd::any();
		check!(grin_core::consensus::reward(fee) == grin_core::consensus::REWARD.saturating_add(fee), "reward = subsidy + fees");
		core::mem::forget(h);
	}
}

const NPOS: usize = parse_env(option_env!("VH_NPOS"), 1) as usize;
const NNEG: usize = parse_env(option_env!("VH_NNEG"), 1) as usize;

proof! {
	[secp, zeroize] fn kernel_offset_sum() {
		// committed::sum_kernel_offsets(positive, negative) - the offset arithmetic behind
		// Block::block_kernel_offset (header offset minus the previous one), aggregate and the
		// chain's running totals - is the group sum of the positive scalars minus the negative
		// ones, zero scalars ignored. Runs against the model group under Kani and against real
		// libsecp256k1 in the native replay (same code).
		use grin_util::secp::key::SecretKey;
		let scalar = |v: u16| {
			let mut b = [0u8; 32];
			b[0] = v as u8;
			b[1] = (v >> 8) as u8;
			BlindingFactor::from_slice(&b)
		};
		let mut pv = [0u16; 2];
		let mut nv = [0u16; 2];
		let mut pos = Vec::with_capacity(2);
		let mut neg = Vec::with_capacity(2);
		let mut i = 0;
		while i < NPOS {
			pv[i] = nd::any();
			pos.push(scalar(pv[i]));
			i += 1;
		}
		i = 0;
		while i < NNEG {
			nv[i] = nd::any();
			neg.push(scalar(nv[i]));
			i += 1;
		}
		// the definition, through the group's own sum
		let expect = {
			let secp = grin_util::static_secp_instance();
			let secp = secp.lock();
			let mut pk: Vec<SecretKey> = Vec::with_capacity(2);
			let mut nk: Vec<SecretKey> = Vec::with_capacity(2);
			i = 0;
			while i < NPOS {
				if pv[i] != 0 {
					pk.push(scalar(pv[i]).secret_key(&secp).unwrap());
				}
				i += 1;
			}
			i = 0;
			while i < NNEG {
				if nv[i] != 0 {
					nk.push(scalar(nv[i]).secret_key(&secp).unwrap());
				}
				i += 1;
			}
			if pk.is_empty() && nk.is_empty() {
				Some(BlindingFactor::zero())
			} else {
				// (the real library refuses a sum that is exactly zero; those inputs are skipped)
				secp.blind_sum(pk, nk).ok().map(BlindingFactor::from_secret_key)
			}
		};
		nd::assume(expect.is_some());
		let expect = expect.unwrap();
		// the recorded finding (known_findings.json): when no positive offset is non-zero the
		// function returns zero and ignores the negative ones. The shape with no positive offset
		// at all is its witness; the other shapes are claimed outside that case.
		let all_pos_zero = (NPOS < 1 || pv[0] == 0) && (NPOS < 2 || pv[1] == 0);
		let some_neg = (NNEG >= 1 && nv[0] != 0) || (NNEG >= 2 && nv[1] != 0);
		if NPOS > 0 {
			nd::assume(!(all_pos_zero && some_neg));
		}
		let got = grin_core::core::committed::sum_kernel_offsets(pos, neg);
		if NPOS == 0 {
			check!(matches!(&got, Ok(b) if *b == expect), "with no positive offsets the sum is minus the negative offsets");
		} else {
			check!(matches!(&got, Ok(b) if *b == expect), "kernel offset sum = sum(positive) - sum(negative), zero scalars ignored");
		}
		cover!(NNEG == 0 || nv[0] != 0, "a non-zero negative offset");
		core::mem::forget(got);
		core::mem::forget(expect);
	}
}

proof! {
	[secp, hash_mix, sort] fn block_validate_sound() {
		// Block::validate == Ok on the smallest block (no inputs, one output, one kernel, any
		// features)  =>  the output's range proof and the kernel's signature were handed to the
		// verifier and are valid; outputs - REWARD == kernel excess with the header's offset
		// minus the previous one as offset; and the coinbase-flagged output minus (REWARD + fees)
		// equals the coinbase-flagged kernel: the subsidy is the only new value.
		// (outside the recorded finding: header offset zero over a non-zero previous offset)
		#[cfg(kani)]
		{
			use grin_core::core::block::{Block, BlockHeader};
			env::set_chain_type(grin_core::global::ChainTypes::Mainnet);
			env::set_nrd_enabled(false);
			let (co, vo, ro) = k::any_elem();
			let (ck, vk, rk) = k::any_elem();
			let cb_o: bool = nd::any();
			let (feat, fee) = k::any_features(true);
			let cb_k = matches!(feat, KernelFeatures::Coinbase);
			let p: bool = nd::any();
			let sg: bool = nd::any();
			let total: u16 = nd::any();
			let prev: u16 = nd::any();
			nd::assume(!(total == 0 && prev != 0));
			let mut header = BlockHeader::default();
			header.total_kernel_offset = BlindingFactor::from_secret_key(m::key_of(total));
			let block = Block {
				header,
				body: TransactionBody {
					inputs: Inputs::default(),
					outputs: vec![Output::new(if cb_o { OutputFeatures::Coinbase } else { OutputFeatures::Plain }, co, k::proof(p))],
					kernels: vec![TxKernel { features: feat, excess: ck, excess_sig: k::sig(sg) }],
				},
			};
			unsafe {
				m::SIGS_ASKED = 0;
				m::PROOFS_ASKED = 0;
			}
			let r = block.validate(&BlindingFactor::from_secret_key(m::key_of(prev)));
			if r.is_ok() {
				check!(p && sg, "accepted => the range proof and the kernel signature are valid");
				check!(unsafe { m::SIGS_ASKED } == 1 && unsafe { m::PROOFS_ASKED } == 1, "accepted => both were handed to the verifier");
				let reward = grin_core::consensus::REWARD as u16;
				check!(vo.wrapping_sub(reward) == vk, "accepted => outputs - subsidy == kernel excesses (value component)");
				check!(ro == rk.wrapping_add(total.wrapping_sub(prev)), "accepted => blinding components balance with the header's offset minus the previous one");
				let claimed = grin_core::consensus::REWARD.wrapping_add(fee) as u16;
				let (ov, or_) = if cb_o { (vo, ro) } else { (0, 0) };
				let (kv, kr) = if cb_k { (vk, rk) } else { (0, 0) };
				check!(ov.wrapping_sub(claimed) == kv && or_ == kr, "accepted => coinbase outputs - (subsidy + fees) == coinbase kernels");
			}
			cover!(r.is_ok(), "a block is accepted");
			cover!(r.is_ok() && total != prev, "accepted with a non-zero block offset");
			cover!(r.is_err(), "a block is rejected");
			core::mem::forget(r);
			core::mem::forget(block);
		}
	}
}

pub const HARNESSES: &[(&str, fn())] = &[
	("c01::kernel_sums_iff_equation_1_2_1", kernel_sums_iff_equation_1_2_1),
	("c01::tx_validate_sound", tx_validate_sound),
	("c01::body_validate_consults_oracles", body_validate_consults_oracles),
	("c01::block_coinbase_sum", block_coinbase_sum),
	("c01::block_validate_sound", block_validate_sound),
	("c01::header_overage_arithmetic", header_overage_arithmetic),
	("c01::kernel_offset_sum", kernel_offset_sum),
];
