//! C05 — PoW: variant selection (family C) and proof serialisation (family D).
//! (Family A, the cycle logic, and B, the hash, are in c05a.rs.)
base_uses!();
use crate::{env, nd};
use grin_core::global::{self, ChainTypes};
use grin_core::pow::{self, Proof};
use grin_core::ser::{self, DeserializationMode, ProtocolVersion};

const fn parse_env(s: Option<&str>, default: u64) -> u64 {
	match s {
		Some(s) => {
			let b = s.as_bytes();
			let mut v = 0u64;
			let mut i = 0;
			while i < b.len() {
				v = v * 10 + (b[i] - b'0') as u64;
				i += 1;
			}
			v
		}
		None => default,
	}
}
/// edge bits of this query
const EB: u8 = parse_env(option_env!("VH_EB"), 31) as u8;
/// chain type: 0 AutomatedTesting (proof size 8) ... 3 Mainnet (42)
const CT: u8 = parse_env(option_env!("VH_CT"), 0) as u8;
const N: usize = if CT == 0 { 8 } else { 42 };
/// encoded length: edge_bits byte + packed nonces
const PACK: usize = (EB as usize * N + 7) / 8;
const ENC: usize = 1 + PACK;

fn any_proof() -> Proof {
	let mut nonces = Vec::with_capacity(N);
	let mut i = 0;
	while i < N {
		let x: u64 = nd::any();
		nd::assume(x < (1u64 << EB));
		nonces.push(x);
		i += 1;
	}
	Proof { edge_bits: EB, nonces }
}

fn enc(p: &Proof) -> [u8; ENC] {
	let mut buf = [0u8; ENC];
	let mut sink: &mut [u8] = &mut buf[..];
	ser::serialize(&mut sink, ProtocolVersion(1), p).expect("proof serialises");
	check!(sink.is_empty(), "writer filled exactly the encoded length");
	buf
}

fn dec(buf: &[u8; ENC]) -> Result<Proof, ser::Error> {
	ser::deserialize::<Proof, _>(&mut &buf[..], ProtocolVersion(1), DeserializationMode::default())
}

proof! {
	fn proof_roundtrip() {
		// D1: read(write(p)) == p for every in-range nonce tuple (sortedness is not required by ser)
		env::set_chain_type(env::chain_type_of(CT));
		let p = any_proof();
		let b = enc(&p);
		check!(b[0] == EB, "first byte is edge_bits");
		let q = dec(&b);
		check!(q.is_ok(), "own encoding decodes");
		let q = q.unwrap();
		check!(q.edge_bits == p.edge_bits && q.nonces.len() == N, "shape preserved");
		let i: usize = nd::any();
		nd::assume(i < N);
		check!(q.nonces[i] == p.nonces[i], "every nonce preserved bit-exactly");
		core::mem::forget(p);
		core::mem::forget(q);
	}
}

proof! {
	fn proof_decode_valid() {
		// D2: any byte string of the exact length either is refused or yields N in-range nonces
		env::set_chain_type(env::chain_type_of(CT));
		let mut b: [u8; ENC] = nd::any();
		b[0] = EB;
		let r = dec(&b);
		if let Ok(p) = &r {
			check!(p.edge_bits == EB && p.nonces.len() == N, "decoded shape");
			let i: usize = nd::any();
			nd::assume(i < N);
			check!(p.nonces[i] < (1u64 << EB), "decoded nonce within edge range");
			// padding bits beyond N*EB must be zero: refused, not normalised
			if (EB as usize * N) % 8 != 0 {
				let pad_bits = 8 - (EB as usize * N) % 8;
				check!(b[ENC - 1] >> (8 - pad_bits) == 0, "accepted encodings have zero padding bits");
			}
		}
		cover!(r.is_ok(), "accepted");
		cover!(r.is_err(), "refused (non-zero padding)");
		core::mem::forget(r);
	}
}

proof! {
	fn proof_decode_injective() {
		// D3: two accepted encodings of the same value are the same bytes
		env::set_chain_type(env::chain_type_of(CT));
		let mut b1: [u8; ENC] = nd::any();
		let mut b2: [u8; ENC] = nd::any();
		b1[0] = EB;
		b2[0] = EB;
		let r1 = dec(&b1);
		let r2 = dec(&b2);
		if let (Ok(p1), Ok(p2)) = (&r1, &r2) {
			let mut same = true;
			let mut i = 0;
			while i < N {
				same &= p1.nonces[i] == p2.nonces[i];
				i += 1;
			}
			if same {
				let j: usize = nd::any();
				nd::assume(j < ENC);
				check!(b1[j] == b2[j], "equal values come from equal bytes (canonical encoding)");
			}
			cover!(same, "two equal decodes");
		}
		core::mem::forget(r1);
		core::mem::forget(r2);
	}
}

proof! {
	[alloc] fn proof_bad_edge_bits_refused() {
		// D4: edge_bits 0 and 64..=255 are refused whatever follows; no panic for any edge_bits
		env::set_chain_type(env::chain_type_of(CT));
		let b: [u8; 16] = nd::any();
		env::alloc_limit(usize::MAX);
		let r = ser::deserialize::<Proof, _>(&mut &b[..], ProtocolVersion(1), DeserializationMode::default());
		if b[0] == 0 || b[0] > 63 {
			check!(r.is_err(), "edge_bits outside 1..=63 refused");
		}
		cover!(r.is_err(), "refused");
		core::mem::forget(r);
	}
}

// ---------------------------------------------------------------- family C: variant selection

#[cfg(kani)]
pub mod sel {
	use grin_core::pow::{Error, PoWContext};
	pub static mut PICK: u8 = 0;
	fn tag(t: u8) -> Result<Box<dyn PoWContext>, Error> {
		unsafe {
			PICK = t;
		}
		Err(Error::NoSolution)
	}
	pub fn cuckatoo(_e: u8, _p: usize, _m: u32) -> Result<Box<dyn PoWContext>, Error> {
		tag(10)
	}
	pub fn cuckaroo(_e: u8, _p: usize) -> Result<Box<dyn PoWContext>, Error> {
		tag(1)
	}
	pub fn cuckarood(_e: u8, _p: usize) -> Result<Box<dyn PoWContext>, Error> {
		tag(2)
	}
	pub fn cuckaroom(_e: u8, _p: usize) -> Result<Box<dyn PoWContext>, Error> {
		tag(3)
	}
	pub fn cuckarooz(_e: u8, _p: usize) -> Result<Box<dyn PoWContext>, Error> {
		tag(4)
	}
	pub fn none() -> Result<Box<dyn PoWContext>, Error> {
		tag(99)
	}
}

proof! {
	[]
	#[cfg_attr(kani, kani::stub(grin_core::pow::cuckatoo::new_cuckatoo_ctx, sel::cuckatoo))]
	#[cfg_attr(kani, kani::stub(grin_core::pow::cuckaroo::new_cuckaroo_ctx, sel::cuckaroo))]
	#[cfg_attr(kani, kani::stub(grin_core::pow::cuckarood::new_cuckarood_ctx, sel::cuckarood))]
	#[cfg_attr(kani, kani::stub(grin_core::pow::cuckaroom::new_cuckaroom_ctx, sel::cuckaroom))]
	#[cfg_attr(kani, kani::stub(grin_core::pow::cuckarooz::new_cuckarooz_ctx, sel::cuckarooz))]
	#[cfg_attr(kani, kani::stub(grin_core::pow::cuckaroo::no_cuckaroo_ctx, sel::none))]
	fn pow_variant_selection() {
		let ct = env::any_chain_type();
		env::set_chain_type(ct);
		let height: u64 = nd::any();
		nd::assume(height < (1u64 << 32));
		let eb: u8 = nd::any();
		let r = global::create_pow_context::<u64>(height, eb, 42, 10);
		core::mem::forget(r);
		#[cfg(kani)]
		{
			let pick = unsafe { sel::PICK };
			let production = ct == ChainTypes::Mainnet || ct == ChainTypes::Testnet;
			let expect = if !production || eb > 29 {
				10
			} else {
				match grin_core::consensus::header_version(height).0 {
					1 => 1,
					2 => 2,
					3 => 3,
					4 => 4,
					_ => 99,
				}
			};
			check!(pick == expect, "cuckatoo unless a production chain asks for <=29 edge bits; then the cuckaroo variant of the header version, none after HF4");
			cover!(pick == 3, "cuckaroom era");
			cover!(pick == 99, "no AR PoW after the fourth hard fork");
		}
	}
}

pub const HARNESSES: &[(&str, fn())] = &[
	("c05::proof_roundtrip", proof_roundtrip),
	("c05::proof_decode_valid", proof_decode_valid),
	("c05::proof_decode_injective", proof_decode_injective),
	("c05::proof_bad_edge_bits_refused", proof_bad_edge_bits_refused),
	("c05::pow_variant_selection", pow_variant_selection),
];
