//! C10 — encodings round-trip, are canonical, and hashes are version independent.
//! Fixed-size consensus objects: kernel features, kernels, inputs, output identifiers.
base_uses!();
use crate::{env, nd};
use grin_core::core::hash::{Hash, Hashed};
use grin_core::core::transaction::{FeeFields, KernelFeatures, NRDRelativeHeight, OutputFeatures};
use grin_core::core::{Input, OutputIdentifier, TxKernel};
use grin_core::ser::{self, DeserializationMode, ProtocolVersion, Readable, Writeable};
use grin_util::secp::pedersen::Commitment;
use grin_util::secp::Signature;

fn version_of(k: u8) -> ProtocolVersion {
	ProtocolVersion(match k {
		0 => 1,
		1 => 2,
		2 => 3,
		_ => 1000,
	})
}
pub fn any_version() -> ProtocolVersion {
	let k: u8 = nd::any();
	nd::assume(k < 4);
	version_of(k)
}

/// every value of the enum: variant, 64-bit fee fields, 64-bit lock height, every valid NRD height
pub fn any_kernel_features(nrd_ok: bool) -> KernelFeatures {
	let tag: u8 = nd::any();
	nd::assume(tag < 4);
	let fee_raw: u64 = nd::any();
	// FeeFields has no public raw constructor: go through its reader (accepts any u64)
	let fb = fee_raw.to_be_bytes();
	let fee: FeeFields = ser::deserialize_default(&mut &fb[..]).unwrap();
	match tag {
		0 => KernelFeatures::Plain { fee },
		1 => KernelFeatures::Coinbase,
		2 => KernelFeatures::HeightLocked { fee, lock_height: nd::any() },
		_ => {
			nd::assume(nrd_ok);
			let h: u16 = nd::any();
			nd::assume(h >= 1 && h as u64 <= grin_core::consensus::WEEK_HEIGHT);
			KernelFeatures::NoRecentDuplicate { fee, relative_height: NRDRelativeHeight::new(h as u64).unwrap() }
		}
	}
}

/// encode into a fixed sink, return the bytes used
fn enc<T: Writeable, const L: usize>(x: &T, v: ProtocolVersion) -> ([u8; L], usize) {
	let mut buf = [0u8; L];
	let mut sink: &mut [u8] = &mut buf[..];
	ser::serialize(&mut sink, v, x).expect("serialises");
	let left = sink.len();
	(buf, L - left)
}

fn dec<T: Readable>(b: &[u8], v: ProtocolVersion) -> (Result<T, ser::Error>, usize) {
	let mut src: &[u8] = b;
	let r = ser::deserialize::<T, _>(&mut src, v, DeserializationMode::default());
	let used = b.len() - src.len();
	(r, used)
}

proof! {
	fn kernel_features_roundtrip() {
		env::set_nrd_enabled(true);
		let v = any_version();
		let x = any_kernel_features(true);
		let (b, n) = enc::<_, 17>(&x, v);
		let expect_len = if v.value() < 2 { 17 } else {
			match x { KernelFeatures::Plain{..} => 9, KernelFeatures::Coinbase => 1, KernelFeatures::HeightLocked{..} => 17, KernelFeatures::NoRecentDuplicate{..} => 11 }
		};
		check!(n == expect_len, "encoded length of each variant at each version");
		let (y, used) = dec::<KernelFeatures>(&b[..n], v);
		check!(y.is_ok(), "own encoding decodes");
		check!(y.unwrap() == x, "decodes to an equal value");
		check!(used == n, "decoder consumes exactly the encoding");
		cover!(matches!(x, KernelFeatures::NoRecentDuplicate{..}) && v.value() == 1, "NRD at v1");
		cover!(matches!(x, KernelFeatures::HeightLocked{..}) && v.value() == 3, "height locked at v3");
	}
}

proof! {
	fn kernel_features_canonical() {
		// whatever decodes re-encodes to the very bytes consumed: reserved bytes, unknown tags and
		// out-of-range NRD heights are refused, not normalised
		let nrd: bool = nd::any();
		env::set_nrd_enabled(nrd);
		let v = any_version();
		let b: [u8; 17] = nd::any();
		let (r, used) = dec::<KernelFeatures>(&b, v);
		if let Ok(x) = r {
			let (c, n) = enc::<_, 17>(&x, v);
			check!(n == used, "re-encoding has the consumed length");
			let i: usize = nd::any();
			nd::assume(i < 17);
			check!(i >= n || c[i] == b[i], "re-encoding reproduces the consumed bytes");
			check!(b[0] <= 3, "unknown feature tags refused");
			check!(b[0] != 3 || nrd, "NRD kernels refused while the feature is off");
			if v.value() < 2 && b[0] == 1 {
				check!(b[1..17] == [0u8; 16], "v1 coinbase: fee and data bytes must be zero");
			}
			cover!(b[0] == 3, "an NRD kernel decodes");
		}
		cover!(r.is_err(), "some 17-byte string is refused");
	}
}

pub fn any_commit() -> Commitment {
	let c: [u8; 33] = nd::any();
	Commitment(c)
}

pub fn any_kernel(nrd_ok: bool) -> TxKernel {
	let s: [u8; 64] = nd::any();
	TxKernel {
		features: any_kernel_features(nrd_ok),
		excess: any_commit(),
		excess_sig: Signature::from_raw_data(&s).unwrap(),
	}
}

fn kernel_fields_eq(a: &TxKernel, b: &TxKernel) -> bool {
	a.features == b.features && a.excess.0 == b.excess.0 && a.excess_sig.to_raw_data() == b.excess_sig.to_raw_data()
}

proof! {
	[hash_mix] fn txkernel_roundtrip_and_hash() {
		env::set_nrd_enabled(true);
		let v = any_version();
		let x = any_kernel(true);
		let (b, n) = enc::<_, 114>(&x, v);
		let (y, used) = dec::<TxKernel>(&b[..n], v);
		check!(y.is_ok() && used == n, "own encoding decodes, consuming all of it");
		let y = y.unwrap();
		check!(kernel_fields_eq(&x, &y), "field-wise equal after the round trip");
		// identity hash does not depend on the version the kernel travelled in
		check!(x.hash() == y.hash(), "kernel hash independent of the protocol version");
		// and equals the hash of the v1 layout (hash mode always writes v1)
		let (b1, n1) = enc::<_, 114>(&x, ProtocolVersion(1));
		check!(n1 == 114, "v1 kernels are 114 bytes");
		let (z, _) = dec::<TxKernel>(&b1, ProtocolVersion(1));
		check!(z.unwrap().hash() == x.hash(), "same hash after a v1 trip");
	}
}

proof! {
	fn input_and_output_identifier_roundtrip() {
		let v = any_version();
		let f: bool = nd::any();
		let feat = if f { OutputFeatures::Coinbase } else { OutputFeatures::Plain };
		let c = any_commit();
		let i = Input::new(feat, c);
		let (b, n) = enc::<_, 34>(&i, v);
		check!(n == 34 && b[0] == f as u8, "input = features byte + commitment");
		let (j, used) = dec::<Input>(&b, v);
		let j = j.unwrap();
		check!(used == 34 && j.features == i.features && j.commit.0 == i.commit.0, "input round trip");
		let o = OutputIdentifier::new(feat, &c);
		let (b2, n2) = enc::<_, 34>(&o, v);
		let (p, used2) = dec::<OutputIdentifier>(&b2, v);
		let p = p.unwrap();
		check!(n2 == 34 && used2 == 34 && p.features == o.features && p.commit.0 == o.commit.0, "output identifier round trip");
	}
}

proof! {
	fn input_canonical() {
		let v = any_version();
		let b: [u8; 34] = nd::any();
		let (r, used) = dec::<Input>(&b, v);
		if let Ok(x) = r {
			check!(b[0] <= 1, "unknown output feature bytes are refused");
			let (c, n) = enc::<_, 34>(&x, v);
			let k: usize = nd::any();
			nd::assume(k < 34);
			check!(n == used && c[k] == b[k], "re-encodes to the same bytes");
		}
		cover!(r.is_err(), "feature byte > 1 refused");
	}
}

proof! {
	[hash_mix, sort] fn body_inputs_roundtrip_v2_v3() {
		// a body carrying two "features and commit" inputs (the v2-compatible variant) must decode
		// from its own encoding at every version that can carry it; at v3+ only the commitments
		// travel and they must arrive in the order the v3 reader demands
		use grin_core::core::transaction::CommitWrapper;
		use grin_core::core::{Inputs, TransactionBody};
		env::set_chain_type(grin_core::global::ChainTypes::Mainnet);
		let v = any_version();
		let f1: bool = nd::any();
		let f2: bool = nd::any();
		let of = |c: bool| if c { OutputFeatures::Coinbase } else { OutputFeatures::Plain };
		let c1 = any_commit();
		let c2 = any_commit();
		let i1 = Input::new(of(f1), c1);
		let i2 = Input::new(of(f2), c2);
		// exclude collisions of the (non-injective) model hash: real hashes of distinct values differ
		nd::assume(CommitWrapper::from(c1).hash() != CommitWrapper::from(c2).hash());
		nd::assume(i1.hash() != i2.hash());
		let mut ins = vec![i1, i2];
		if ins[0].hash() > ins[1].hash() {
			ins.swap(0, 1);
		}
		let body = TransactionBody { inputs: Inputs::FeaturesAndCommit(ins), outputs: vec![], kernels: vec![] };
		let (b, n) = enc::<_, 92>(&body, v);
		check!(n == if v.value() >= 3 { 24 + 66 } else { 24 + 68 }, "three counts, then 33 (v3+) or 34 bytes per input");
		let (r, used) = dec::<TransactionBody>(&b[..n], v);
		check!(r.is_ok(), "a body decodes from its own encoding at this version");
		let d = r.unwrap();
		check!(used == n && d.inputs.len() == 2, "all bytes consumed, both inputs present");
		let got: Vec<CommitWrapper> = (&d.inputs).into();
		let has = |c: &Commitment| got[0].commitment().0 == c.0 || got[1].commitment().0 == c.0;
		check!(has(&c1) && has(&c2), "inputs compared by commitment survive the round trip");
		cover!(v.value() >= 3, "commit-only wire form");
		cover!(v.value() < 3, "features-and-commit wire form");
		core::mem::forget(d);
		core::mem::forget(body);
	}
}

proof! {
	[hash_mix, sort] fn inputs_wire_order_by_version() {
		// Inputs::write, writer side only (the body reader is what made the round-trip query too
		// heavy): two features-and-commit inputs, in either order of their own (hash of features
		// and commitment) ordering. At v1/v2 both inputs travel as they are (34 bytes each, order
		// kept). At v3+ only the commitments travel and they must be written in ascending
		// hash-of-commitment order - the order the v3 reader's sorted-and-unique check demands
		// (see sorted_unique_*) - whatever the order of the 34-byte inputs was.
		use grin_core::core::transaction::CommitWrapper;
		use grin_core::core::Inputs;
		let v = any_version();
		let f1: bool = nd::any();
		let f2: bool = nd::any();
		let of = |c: bool| if c { OutputFeatures::Coinbase } else { OutputFeatures::Plain };
		let c1 = any_commit();
		let c2 = any_commit();
		let i1 = Input::new(of(f1), c1);
		let i2 = Input::new(of(f2), c2);
		let inputs = Inputs::FeaturesAndCommit(vec![i1, i2]);
		let (b, n) = enc::<_, 68>(&inputs, v);
		if v.value() >= 3 {
			check!(n == 66, "v3+: 33 bytes per input");
			let mut w1 = [0u8; 33];
			let mut w2 = [0u8; 33];
			w1.copy_from_slice(&b[0..33]);
			w2.copy_from_slice(&b[33..66]);
			let same = w1 == c1.0 && w2 == c2.0;
			let swapped = w1 == c2.0 && w2 == c1.0;
			check!(same || swapped, "exactly the two commitments are written");
			let h1 = CommitWrapper::from(Commitment(w1)).hash();
			let h2 = CommitWrapper::from(Commitment(w2)).hash();
			check!(h1 <= h2, "v3+: commitments leave in ascending hash-of-commitment order (what the v3 reader accepts)");
			cover!(swapped && c1.0 != c2.0, "order of the 34-byte inputs reversed on the v3 wire");
			cover!(same && c1.0 != c2.0, "order kept");
		} else {
			check!(n == 68, "v1/v2: 34 bytes per input");
			check!(b[0] == of(f1) as u8 && b[34] == of(f2) as u8, "v1/v2: feature bytes in place");
			let mut w1 = [0u8; 33];
			let mut w2 = [0u8; 33];
			w1.copy_from_slice(&b[1..34]);
			w2.copy_from_slice(&b[35..68]);
			check!(w1 == c1.0 && w2 == c2.0, "v1/v2: the inputs travel as they are, in their own order");
		}
		core::mem::forget(inputs);
	}
}

proof! {
	fn sorted_unique_generic_4() {
		// the canonical-form rule of every body list: VerifySortedAndUnique (generic over Ord,
		// here on u64): Ok exactly for strictly ascending lists; the first offending pair
		// decides between SortError and DuplicateError; lists of 0 and 1 entries are fine.
		// (list lengths are concrete - 4, 2, 1, 0 - a symbolic length exhausted 20 GB)
		use grin_core::ser::VerifySortedAndUnique;
		let a: [u64; 4] = [nd::any(), nd::any(), nd::any(), nd::any()];
		let v: Vec<u64> = vec![a[0], a[1], a[2], a[3]];
		let r = v.verify_sorted_and_unique();
		// definition: first index whose successor is not strictly greater
		let bad: Option<usize> = if !(a[0] < a[1]) { Some(0) } else if !(a[1] < a[2]) { Some(1) } else if !(a[2] < a[3]) { Some(2) } else { None };
		match bad {
			None => check!(r.is_ok(), "strictly ascending lists are accepted"),
			Some(i) => {
				if a[i] == a[i + 1] {
					check!(matches!(r, Err(ser::Error::DuplicateError)), "equal neighbours: DuplicateError");
				} else {
					check!(matches!(r, Err(ser::Error::SortError)), "descending neighbours: SortError");
				}
			}
		}
		cover!(bad == Some(2), "only the last pair offends");
		cover!(r.is_ok(), "four ascending entries");
		let v2: Vec<u64> = vec![a[0], a[1]];
		let r2 = v2.verify_sorted_and_unique();
		check!(r2.is_ok() == (a[0] < a[1]), "two entries: accepted iff ascending (entries beyond the list are not looked at)");
		let v1: Vec<u64> = vec![a[3]];
		check!(v1.verify_sorted_and_unique().is_ok(), "one entry is sorted and unique");
		let v0: Vec<u64> = vec![];
		check!(v0.verify_sorted_and_unique().is_ok(), "the empty list is sorted and unique");
		core::mem::forget(r);
		core::mem::forget(r2);
		core::mem::forget(v);
		core::mem::forget(v2);
		core::mem::forget(v1);
	}
}

proof! {
	[hash_mix] fn sorted_unique_short_ids_3() {
		// the same rule on a hash-ordered consensus type (ShortId, as in compact blocks):
		// accepted exactly when the identity hashes are strictly ascending
		use grin_core::core::id::ShortId;
		use grin_core::ser::VerifySortedAndUnique;
		let b0: [u8; 6] = nd::any();
		let b1: [u8; 6] = nd::any();
		let b2: [u8; 6] = nd::any();
		let v = vec![ShortId::from_bytes(&b0), ShortId::from_bytes(&b1), ShortId::from_bytes(&b2)];
		let h0 = v[0].hash();
		let h1 = v[1].hash();
		let h2 = v[2].hash();
		let r = v.verify_sorted_and_unique();
		check!(r.is_ok() == (h0 < h1 && h1 < h2), "accepted exactly when strictly ascending by hash");
		if b0 == b1 || (h0 < h1 && b1 == b2) {
			check!(matches!(r, Err(ser::Error::DuplicateError)), "a repeated entry is a DuplicateError");
		}
		cover!(r.is_ok(), "ascending");
		cover!(matches!(r, Err(ser::Error::SortError)), "unsorted");
		core::mem::forget(r);
		core::mem::forget(v);
	}
}

pub const HARNESSES: &[(&str, fn())] = &[
	("c10::kernel_features_roundtrip", kernel_features_roundtrip),
	("c10::kernel_features_canonical", kernel_features_canonical),
	("c10::txkernel_roundtrip_and_hash", txkernel_roundtrip_and_hash),
	("c10::input_and_output_identifier_roundtrip", input_and_output_identifier_roundtrip),
	("c10::input_canonical", input_canonical),
	("c10::inputs_wire_order_by_version", inputs_wire_order_by_version),
	("c10::sorted_unique_generic_4", sorted_unique_generic_4),
	("c10::sorted_unique_short_ids_3", sorted_unique_short_ids_3),
	("c10::body_inputs_roundtrip_v2_v3", body_inputs_roundtrip_v2_v3),
];
