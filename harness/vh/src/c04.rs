//! C04 — difficulty retarget is total, deterministic, floored and damped/clamped; header
//! version schedule; achieved-difficulty arithmetic.
base_uses!();
use crate::{env, nd};
use grin_core::consensus::{self, HeaderDifficultyInfo};
use grin_core::core::block::HeaderVersion;
use grin_core::global::ChainTypes;
use grin_core::pow::Difficulty;

const fn parse_env(s: Option<&str>, default: u64) -> u64 {
	match s {
		Some(s) => {
			let b = s.as_bytes();
			let mut v = 0u64;
			let mut i = 0;
			while i < b.len() {
				v = v * 10 + (b[i] - b'0') as u64;
				i += 1;
			}
			v
		}
		None => default,
	}
}
/// chain type of this query (0 AutomatedTesting, 1 UserTesting, 2 Testnet, 3 Mainnet)
const CT: u8 = parse_env(option_env!("VH_CT"), 3) as u8;
/// number of real headers in the window (61 = full window, fewer = just after genesis)
/// width of damp/clamp operands
const DCW: u64 = parse_env(option_env!("VH_DCW"), 32);
const WIN: usize = parse_env(option_env!("VH_WIN"), 61) as usize;

fn entry(ts: u64) -> HeaderDifficultyInfo {
	let d: u64 = nd::any();
	nd::assume(d >= 1 && d < (1 << 48));
	let sc: u32 = nd::any();
	nd::assume(sc < (1 << 24));
	let sec: bool = nd::any();
	HeaderDifficultyInfo::new(None, ts, Difficulty::from_num(d), sc, sec)
}

/// latest-first window of `WIN` headers: timestamps strictly decreasing (header validation
/// enforces strictly increasing time along a chain), gaps < 2^20 s
fn window() -> Vec<HeaderDifficultyInfo> {
	let mut v = Vec::with_capacity(WIN);
	let mut ts: u64 = nd::any();
	nd::assume(ts < (1 << 40) && ts >= (1 << 30));
	let mut i = 0;
	while i < WIN {
		v.push(entry(ts));
		let gap: u64 = nd::any();
		nd::assume(gap >= 1 && gap < (1 << 20));
		ts -= gap;
		i += 1;
	}
	v
}

proof! {
	fn dma_total_floor() {
		env::set_chain_type(env::chain_type_of(CT));
		let height: u64 = nd::any();
		nd::assume(height < (1 << 40));
		let w = window();
		let r1 = consensus::next_dma_difficulty(height, w);
		check!(r1.difficulty.to_num() >= consensus::MIN_DMA_DIFFICULTY, "retarget never below the minimum difficulty");
		check!(r1.secondary_scaling as u64 >= consensus::MIN_AR_SCALE, "secondary scaling never below its minimum (window scalings < 2^24)");
		cover!(r1.difficulty.to_num() > 1000, "non-trivial difficulty");
		core::mem::forget(r1);
	}
}

proof! {
	[alloc] fn pre_genesis_padding() {
		// Vec growth in place on one concrete block (61 entries of <= 72 bytes)
		env::alloc_block(8192);
		// global::difficulty_data_to_vector: a window shorter than DMA_WINDOW + 1 is completed with
		// simulated pre-genesis headers that carry the MOST RECENT header's difficulty and walk
		// back in time from the OLDEST header in steps of the most recent interval (one block time
		// if there is a single header), saturating at 0; the result is oldest-first; a full window is
		// only reversed. Restated here from the function's documentation.
		const N: usize = WIN;
		let mut ts = [0u64; N];
		let mut df = [0u64; N];
		let mut v: Vec<HeaderDifficultyInfo> = Vec::with_capacity(N);
		let mut i = 0;
		while i < N {
			ts[i] = nd::any();
			df[i] = nd::any();
			nd::assume(df[i] >= 1); // Difficulty::from_num clamps 0 to 1
			if i > 0 {
				nd::assume(ts[i] < ts[i - 1]); // newest first, strictly decreasing
			}
			v.push(HeaderDifficultyInfo::from_ts_diff(ts[i], grin_core::pow::Difficulty::from_num(df[i])));
			i += 1;
		}
		let out = grin_core::global::difficulty_data_to_vector(v);
		let need = consensus::DMA_WINDOW as usize + 1;
		check!(out.len() == need, "always DMA_WINDOW + 1 entries");
		// the real headers, oldest first, at the end
		i = 0;
		while i < N && i < need {
			let e = &out[need - 1 - i];
			check!(e.timestamp == ts[i] && e.difficulty.to_num() == df[i], "real headers are kept, oldest first");
			i += 1;
		}
		if N < need {
			let delta = if N > 1 { ts[0] - ts[1] } else { consensus::BLOCK_TIME_SEC };
			let mut t = ts[N - 1];
			let mut k = N;
			while k < need {
				t = t.saturating_sub(delta);
				let e = &out[need - 1 - k];
				check!(e.difficulty.to_num() == df[0], "simulated pre-genesis headers carry the most recent header's difficulty");
				check!(e.timestamp == t, "and walk back from the oldest header by the most recent interval");
				k += 1;
			}
		}
		cover!(N > 1 && df[0] != df[N - 1], "newest and oldest difficulty differ");
		core::mem::forget(out);
	}
}

#[cfg(kani)]
pub mod tag {
	use grin_core::consensus::HeaderDifficultyInfo;
	use grin_core::pow::Difficulty;
	pub static mut WHICH: u8 = 0;
	pub fn dma<T: IntoIterator<Item = HeaderDifficultyInfo>>(_h: u64, _c: T) -> HeaderDifficultyInfo {
		unsafe { WHICH = 1; }
		HeaderDifficultyInfo::new(None, 0, Difficulty::from_num(1), 0, false)
	}
	pub fn wtema<T: IntoIterator<Item = HeaderDifficultyInfo>>(_h: u64, _c: T) -> HeaderDifficultyInfo {
		unsafe { WHICH = 2; }
		HeaderDifficultyInfo::new(None, 0, Difficulty::from_num(1), 0, false)
	}
}

proof! {
	[]
	#[cfg_attr(kani, kani::stub(grin_core::consensus::next_dma_difficulty, tag::dma))]
	#[cfg_attr(kani, kani::stub(grin_core::consensus::next_wtema_difficulty, tag::wtema))]
	fn next_difficulty_dispatch() {
		// next_difficulty(height, _) uses DMA while the header at `height` is scheduled below
		// version 5 and WTEMA from the first version-5 height on, on every chain type
		#[cfg(kani)]
		{
			let ct = env::any_chain_type();
			env::set_chain_type(ct);
			let height: u64 = nd::any();
			// below the u16 wrap of the era counter (recorded finding, see header_version_u16_wrap)
			let wrap = match ct {
				ChainTypes::Mainnet | ChainTypes::Testnet => 1u64 << 32,
				_ => 3 * 65534,
			};
			nd::assume(height < wrap);
			let r = consensus::next_difficulty(height, Vec::<HeaderDifficultyInfo>::new());
			core::mem::forget(r);
			let which = unsafe { tag::WHICH };
			// first version-5 height, restated: 4 eras of half a year on mainnet, the listed
			// fourth fork on testnet, 4 intervals of 3 on the testing chains
			let first_v5 = match ct {
				ChainTypes::Mainnet => 4 * 262_080,
				ChainTypes::Testnet => 642_240,
				_ => 12,
			};
			check!(which == if height >= first_v5 { 2 } else { 1 }, "DMA below the first version-5 height, WTEMA from it on");
			cover!(height == first_v5, "exactly at the fork height");
			cover!(height + 1 == first_v5, "last DMA height");
		}
	}
}

proof! {
	fn wtema_total_floor() {
		env::set_chain_type(env::chain_type_of(CT));
		let height: u64 = nd::any();
		let ts: u64 = nd::any();
		nd::assume(ts < (1 << 40) && ts >= (1 << 31));
		let gap: u64 = nd::any();
		nd::assume(gap >= 1 && gap < (1 << 30));
		let d: u64 = nd::any();
		nd::assume(d >= 1 && d < (1 << 50));
		let last = HeaderDifficultyInfo::new(None, ts, Difficulty::from_num(d), nd::any(), nd::any());
		let prev = HeaderDifficultyInfo::new(None, ts - gap, Difficulty::from_num(nd::any()), nd::any(), nd::any());
		let r = consensus::next_wtema_difficulty(height, vec![last, prev]);
		check!(r.difficulty >= Difficulty::min_wtema(), "wtema never below the minimum graph weight");
		check!(r.secondary_scaling == 0, "no secondary scaling in the wtema era");
		cover!(r.difficulty > Difficulty::min_wtema(), "above the floor");
		core::mem::forget(r);
	}
}

proof! {
	fn wtema_direction() {
		// per-block change has the right sign: slower than target never raises, faster never lowers
		env::set_chain_type(env::chain_type_of(CT));
		let ts: u64 = nd::any();
		nd::assume(ts < (1 << 40) && ts >= (1 << 31));
		let gap: u64 = nd::any();
		nd::assume(gap >= 1 && gap < (1 << 16));
		let d: u64 = nd::any();
		nd::assume(d >= 1 && d < (1 << 32));
		let last = HeaderDifficultyInfo::new(None, ts, Difficulty::from_num(d), 0, false);
		let prev = HeaderDifficultyInfo::new(None, ts - gap, Difficulty::from_num(1), 0, false);
		let r = consensus::next_wtema_difficulty(0, vec![last, prev]).difficulty.to_num();
		let floor = Difficulty::min_wtema().to_num();
		if gap >= consensus::BLOCK_TIME_SEC {
			check!(r <= core::cmp::max(d, floor), "block slower than target: difficulty does not rise");
		}
		if gap <= consensus::BLOCK_TIME_SEC {
			check!(r >= d, "block faster than target: difficulty does not fall");
		}
		core::mem::forget(r);
	}
}

fn damp_clamp_for(f: u64) {
	let actual: u64 = nd::any();
	let goal: u64 = nd::any();
	nd::assume(actual < (1 << DCW) && goal < (1 << DCW) && goal >= f);
	let d = consensus::damp(actual, goal, f);
	let lo = core::cmp::min(actual, goal);
	let hi = core::cmp::max(actual, goal);
	check!(d >= lo && d <= hi, "damp lies between actual and goal");
	// damping moves at most 1/f of the way (+1 for rounding)
	if actual >= goal {
		check!((d - goal) as u128 * f as u128 <= (actual - goal) as u128, "damp moves at most 1/f of the distance upwards");
	} else {
		check!((goal - d) as u128 * f as u128 <= (goal - actual) as u128 + f as u128, "damp moves at most 1/f of the distance downwards");
	}
	let c = consensus::clamp(actual, goal, f);
	check!(c >= goal / f && c <= goal * f, "clamp keeps the value within [goal/f, goal*f]");
	check!(!(actual >= goal / f && actual <= goal * f) || c == actual, "clamp is the identity inside the band");
	cover!(c != actual, "clamped");
}

proof! { fn damp_clamp_f2() { damp_clamp_for(2); } }
proof! { fn damp_clamp_f3() { damp_clamp_for(3); } }
proof! { fn damp_clamp_f13() { damp_clamp_for(13); } }

proof! {
	fn header_version_schedule() {
		let ct = env::any_chain_type();
		env::set_chain_type(ct);
		let h: u64 = nd::any();
		// below the height at which `(1 + height / interval) as u16` wraps (see
		// `header_version_u16_wrap`, a recorded finding): 2^32 blocks (> 8000 years) on the
		// production chains, 3 * 65534 on the testing chains
		let wrap = match ct {
			ChainTypes::Mainnet | ChainTypes::Testnet => 1u64 << 32,
			_ => 3 * 65534,
		};
		nd::assume(h < wrap);
		let v = consensus::header_version(h).0;
		let v1 = consensus::header_version(h + 1).0;
		check!(v >= 1 && v <= 5, "version in 1..=5");
		check!(v1 == v || v1 == v + 1, "monotone, one step at a time");
		// expected schedule, stated independently
		let expect: u16 = match ct {
			ChainTypes::Mainnet => {
				let k = h / 262_080; // half a year of one-minute blocks
				if k >= 4 { 5 } else { 1 + k as u16 }
			}
			ChainTypes::Testnet => {
				if h < 185_040 { 1 } else if h < 298_080 { 2 } else if h < 552_960 { 3 } else if h < 642_240 { 4 } else { 5 }
			}
			_ => {
				let k = h / 3;
				if k >= 4 { 5 } else { 1 + k as u16 }
			}
		};
		check!(v == expect, "header_version follows the hard-fork schedule");
		let cand: u16 = nd::any();
		check!(consensus::valid_header_version(h, HeaderVersion(cand)) == (cand == expect), "valid_header_version accepts exactly the scheduled version");
		cover!(v == 3, "third era");
	}
}

proof! {
	fn header_version_u16_wrap() {
		// Witness of a recorded finding (known_findings.json): the era counter is cast to u16
		// before `min(5, _)`, so at height >= 65535 * interval the version falls back to 0.
		// This harness is EXPECTED TO FAIL while the finding exists.
		let ct = env::any_chain_type();
		env::set_chain_type(ct);
		let h: u64 = nd::any();
		let v = consensus::header_version(h).0;
		check!(v >= 1 && v <= 5, "header_version stays in 1..=5 for every u64 height");
	}
}

proof! {
	fn graph_weight_no_overflow() {
		let ct = env::any_chain_type();
		env::set_chain_type(ct);
		let h: u64 = nd::any();
		let eb: u8 = nd::any();
		nd::assume(eb >= grin_core::global::base_edge_bits() && eb <= 63);
		let w = consensus::graph_weight(h, eb);
		let shift = (eb - grin_core::global::base_edge_bits()) as u64;
		check!(w <= (2u64 << shift) * eb as u64, "weight never above 2^(1+bits-base) * bits");
		check!(eb == 31 || w == (2u64 << shift) * eb as u64, "only C31 is phased out");
		if eb == 31 && h >= consensus::YEAR_HEIGHT + 31 * consensus::WEEK_HEIGHT {
			check!(w == 0, "C31 weight reaches zero 31 weeks after the first year");
		}
		cover!(eb == 31 && w > 0 && h > consensus::YEAR_HEIGHT, "C31 being phased out");
	}
}

proof! {
	fn secondary_pow_ratio_schedule() {
		let h: u64 = nd::any();
		let r = consensus::secondary_pow_ratio(h);
		check!(r <= 90, "at most 90%");
		check!(h < 2 * consensus::YEAR_HEIGHT || r == 0, "zero after two years");
		check!(consensus::secondary_pow_ratio(h.saturating_add(1)) <= r, "monotone non-increasing");
	}
}

proof! {
	fn pow_primary_secondary_predicates() {
		// which proofs count as primary / secondary PoW, per chain type (read-time header rule)
		use grin_core::pow::{Proof, ProofOfWork};
		let ct = env::any_chain_type();
		env::set_chain_type(ct);
		let eb: u8 = nd::any();
		let pow = ProofOfWork { total_difficulty: Difficulty::from_num(1), secondary_scaling: nd::any(), nonce: nd::any(), proof: Proof { edge_bits: eb, nonces: vec![] } };
		let min = match ct { ChainTypes::AutomatedTesting => 10, ChainTypes::UserTesting => 15, _ => 31 };
		check!(pow.is_secondary() == (eb == 29), "secondary PoW is exactly edge_bits 29");
		check!(pow.is_primary() == (eb != 29 && eb >= min), "primary PoW is any other size from the chain's minimum up");
		check!(pow.edge_bits() == eb, "edge_bits accessor");
		core::mem::forget(pow);
	}
}

pub mod tag2 {
	/// tagging stub for Proof::scaled_difficulty (the 128-bit quotient scale * 2^64 / hash is not
	/// decided: symbolic wide division does not finish): hands back the scale it was given
	pub fn scaled_difficulty(_p: &grin_core::pow::Proof, scale: u64) -> u64 {
		scale
	}
}

proof! {
	[]
	#[cfg_attr(kani, kani::stub(grin_core::pow::Proof::scaled_difficulty, tag2::scaled_difficulty))]
	fn pow_difficulty_scaling_dispatch() {
		// which scaling factor the achieved difficulty of a proof is computed with: the header's
		// secondary_scaling for the secondary PoW (edge_bits 29), the graph weight of
		// (height, edge_bits) for every other size; the unscaled difficulty uses factor 1
		#[cfg(kani)]
		{
			use grin_core::pow::{Proof, ProofOfWork};
			let ct = env::any_chain_type();
			env::set_chain_type(ct);
			let eb: u8 = nd::any();
			nd::assume(eb <= 63);
			let height: u64 = nd::any();
			let scaling: u32 = nd::any();
			let pow = ProofOfWork { total_difficulty: Difficulty::from_num(1), secondary_scaling: scaling, nonce: nd::any(), proof: Proof { edge_bits: eb, nonces: vec![] } };
			// sizes below the chain's base size never get here (refused as neither primary nor
			// secondary when the header is read); graph_weight is not defined for them
			nd::assume(eb == 29 || eb >= grin_core::global::base_edge_bits());
			let d = pow.to_difficulty(height).to_num();
			let at_least_one = |x: u64| if x == 0 { 1 } else { x };
			if eb == 29 {
				check!(d == at_least_one(scaling as u64), "secondary PoW: scaled by the header's secondary_scaling");
			} else {
				check!(d == at_least_one(consensus::graph_weight(height, eb)), "primary PoW: scaled by the graph weight of its size at that height");
			}
			check!(pow.to_unscaled_difficulty().to_num() == 1, "unscaled difficulty uses factor 1");
			cover!(eb == 29 && scaling as u64 != consensus::graph_weight(height, eb), "the two factors differ");
			core::mem::forget(pow);
		}
	}
}

pub const HARNESSES: &[(&str, fn())] = &[
	("c04::dma_total_floor", dma_total_floor),
	("c04::pre_genesis_padding", pre_genesis_padding),
	("c04::next_difficulty_dispatch", next_difficulty_dispatch),
	("c04::wtema_total_floor", wtema_total_floor),
	("c04::wtema_direction", wtema_direction),
	("c04::damp_clamp_f2", damp_clamp_f2),
	("c04::damp_clamp_f3", damp_clamp_f3),
	("c04::damp_clamp_f13", damp_clamp_f13),
	("c04::header_version_schedule", header_version_schedule),
	("c04::header_version_u16_wrap", header_version_u16_wrap),
	("c04::graph_weight_no_overflow", graph_weight_no_overflow),
	("c04::secondary_pow_ratio_schedule", secondary_pow_ratio_schedule),
	("c04::pow_primary_secondary_predicates", pow_primary_secondary_predicates),
	("c04::pow_difficulty_scaling_dispatch", pow_difficulty_scaling_dispatch),
];
