//! Kani proof harnesses over the real grin crates (path dependencies on /repo).
//!
//! Every harness is an ordinary `pub fn` that draws its inputs through `nd::any()`:
//!   * under `cargo kani` (`cfg(kani)`) that is `kani::any()` — a symbolic value, and the
//!     function carries `#[kani::proof]` plus the environment stubs of DESIGN.md §3;
//!   * in a normal build the same function is linked into `bin/replay`, `nd::any()` pops the
//!     concrete values of a counterexample, nothing is stubbed, and a panic means the
//!     counterexample reproduces against the real code.
#![recursion_limit = "1024"]
#![allow(dead_code, unused_imports, unused_macros, static_mut_refs)]

extern crate alloc;

#[macro_use]
pub mod nd;
#[macro_use]
pub mod env;
pub mod secp_model;

pub mod c00;
pub mod c01;
pub mod c04;
pub mod c05;
pub mod c05a;
pub mod c07a;
pub mod c07b;
pub mod c08;
pub mod c10;
pub mod c10b;
pub mod c10c;
pub mod c11;
pub mod c12;
pub mod c13;
pub mod c14;
pub mod c15;
pub mod c16;
pub mod c19;
pub mod c20;

/// name -> harness function, used by bin/replay
pub fn registry() -> Vec<(&'static str, fn())> {
	let mut v: Vec<(&'static str, fn())> = vec![];
	v.extend_from_slice(c07a::HARNESSES);
	v.extend_from_slice(c07b::HARNESSES);
	v.extend_from_slice(c05::HARNESSES);
	v.extend_from_slice(c05a::HARNESSES);
	v.extend_from_slice(c04::HARNESSES);
	v.extend_from_slice(c11::HARNESSES);
	v.extend_from_slice(c01::HARNESSES);
	v.extend_from_slice(c10::HARNESSES);
	v.extend_from_slice(c10b::HARNESSES);
	v.extend_from_slice(c10c::HARNESSES);
	v.extend_from_slice(c12::HARNESSES);
	v.extend_from_slice(c13::HARNESSES);
	v.extend_from_slice(c14::HARNESSES);
	v.extend_from_slice(c16::HARNESSES);
	v.extend_from_slice(c15::HARNESSES);
	v.extend_from_slice(c19::HARNESSES);
	v.extend_from_slice(c08::HARNESSES);
	v.extend_from_slice(c20::HARNESSES);
	v
}
