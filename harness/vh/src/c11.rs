//! C11 — decoding untrusted bytes never panics, aborts, hangs or over-allocates.
//!
//! Every harness feeds a fully symbolic byte buffer of a *concrete* length (lengths are
//! enumerated as separate queries, DESIGN §5) to a real decoder. Kani's default checks are
//! the "no panic / no failed bounds check / no unwrap on None" clause; the allocation ghost
//! (E12) is the "no over-allocation" clause; unwinding assertions are the "no hang" clause.
base_uses!();
use crate::{env, nd};
use grin_core::core::hash::Hash;
use grin_core::core::merkle_proof::MerkleProof;
use grin_core::core::pmmr::segment::{Segment, SegmentIdentifier, SegmentProof};
use grin_core::core::{OutputIdentifier, TxKernel};
use grin_core::ser::{self, DeserializationMode, ProtocolVersion, Readable};

/// allocation bound of the property: a small multiple of the input length plus the decoders'
/// own legitimate constants (100 kB `read_fixed_bytes` cap, 1024-item pre-allocations)
pub const fn alloc_bound(len: usize) -> usize {
	64 * len + 128 * 1024
}

fn any_version() -> ProtocolVersion {
	let v: u8 = nd::any();
	nd::assume(v >= 1 && v <= 4);
	// 1, 2, 3 are the wire versions; 4 stands for the local/db version (1000)
	ProtocolVersion(if v == 4 { 1000 } else { v as u32 })
}

/// decode `T` from `L` arbitrary bytes through BinReader; no panic, bounded allocation
fn decode_any<T: Readable, const L: usize>() {
	env::set_chain_type(grin_core::global::ChainTypes::AutomatedTesting);
	env::set_nrd_enabled(true);
	let buf: [u8; L] = nd::any();
	let v = any_version();
	env::alloc_reset();
	env::alloc_limit(alloc_bound(L));
	// blocks a little larger than the input: a request beyond that is checked against the bound
	// and its path then cut (it could only end in a failed read of bytes that are not there)
	env::alloc_block(if L < 96 { 128 } else { L + 32 });
	let r = ser::deserialize::<T, _>(&mut &buf[..], v, DeserializationMode::default());
	check!(env::alloc_max() <= alloc_bound(L), "allocation request bounded by a small multiple of the input length");
	cover!(r.is_ok(), "some input decodes");
	cover!(r.is_err(), "some input is refused");
	core::mem::forget(r);
}

macro_rules! decode_harness {
	($name:ident, $t:ty, $l:expr) => {
		proof! { [alloc] fn $name() { decode_any::<$t, $l>(); } }
	};
}

decode_harness!(merkle_proof_read_16, MerkleProof, 16);
decode_harness!(merkle_proof_read_48, MerkleProof, 48);
decode_harness!(segment_proof_read_8, SegmentProof, 8);
decode_harness!(segment_proof_read_40, SegmentProof, 40);
decode_harness!(segment_identifier_read_9, SegmentIdentifier, 9);
// consensus objects
decode_harness!(txkernel_read_114, TxKernel, 114);
decode_harness!(txkernel_read_60, TxKernel, 60);
proof! {
	[alloc] fn rangeproof_read_length_boundaries() {
		// structure-aware: the 8-byte length prefix is set to each boundary value in turn
		// (concrete per case, so every copy has a concrete size), the following bytes are symbolic
		use grin_util::secp::constants::MAX_PROOF_SIZE;
		const L: usize = 8 + MAX_PROOF_SIZE + 8;
		let mut buf: [u8; L] = nd::any();
		let lens: [u64; 8] = [0, 1, MAX_PROOF_SIZE as u64 - 1, MAX_PROOF_SIZE as u64, MAX_PROOF_SIZE as u64 + 1,
			MAX_PROOF_SIZE as u64 + 8, 100_000, 100_001];
		// one boundary value per query (VH_CASE), so that every copy has one concrete size
		const CASE: usize = match option_env!("VH_CASE") { Some(s) => (s.as_bytes()[0] - b'0') as usize, None => 4 };
		let mut k = CASE;
		while k < CASE + 1 {
			buf[..8].copy_from_slice(&lens[k].to_be_bytes());
			env::alloc_reset();
			env::alloc_limit(alloc_bound(L));
			env::alloc_block(1024);
			let r = ser::deserialize::<grin_util::secp::pedersen::RangeProof, _>(&mut &buf[..], ProtocolVersion(1), DeserializationMode::default());
			if let Ok(p) = &r {
				check!(p.plen <= MAX_PROOF_SIZE, "decoded proof length within the proof buffer");
			}
			cover!(r.is_ok() || k != 3, "a maximal proof decodes");
			core::mem::forget(r);
			k += 1;
		}
	}
}
decode_harness!(rangeproof_read_24, grin_util::secp::pedersen::RangeProof, 24);
decode_harness!(transaction_body_read_64, grin_core::core::TransactionBody, 64);
proof! {
	[alloc] fn pow_proof_read_edge_bits_sweep() {
		// tag/size byte swept over boundary values (concrete per case), remaining bytes symbolic
		env::set_chain_type(grin_core::global::ChainTypes::AutomatedTesting);
		let mut buf: [u8; 72] = nd::any();
		let ebs: [u8; 9] = [0, 1, 7, 8, 10, 63, 64, 128, 255];
		let mut k = 0;
		while k < ebs.len() {
			buf[0] = ebs[k];
			env::alloc_reset();
			env::alloc_limit(alloc_bound(72));
			env::alloc_block(128);
			let r = ser::deserialize::<grin_core::pow::Proof, _>(&mut &buf[..], ProtocolVersion(1), DeserializationMode::default());
			if ebs[k] == 0 || ebs[k] > 63 {
				check!(r.is_err(), "edge_bits outside 1..=63 refused");
			}
			if let Ok(p) = &r {
				check!(p.nonces.len() == 8 && p.edge_bits == ebs[k], "decoded shape");
			}
			core::mem::forget(r);
			k += 1;
		}
	}
}
// p2p message bodies
decode_harness!(p2p_hand_read_96, grin_p2p::msg::Hand, 96);
decode_harness!(p2p_shake_read_64, grin_p2p::msg::Shake, 64);
decode_harness!(p2p_peer_addrs_read_48, grin_p2p::msg::PeerAddrs, 48);
decode_harness!(p2p_locator_read_40, grin_p2p::msg::Locator, 40);
decode_harness!(p2p_peer_error_read_24, grin_p2p::msg::PeerError, 24);
decode_harness!(p2p_ping_read_16, grin_p2p::msg::Ping, 16);
decode_harness!(p2p_ban_reason_read_4, grin_p2p::msg::BanReason, 4);
decode_harness!(p2p_segment_request_read_41, grin_p2p::msg::SegmentRequest, 41);
decode_harness!(p2p_txhashset_request_read_40, grin_p2p::msg::TxHashSetRequest, 40);
// chain
decode_harness!(bitmap_segment_read_48, grin_chain::txhashset::BitmapSegment, 48);

proof! {
	[alloc] fn merkle_proof_from_hex_ascii_32() {
		// 32 hex characters = the 16-byte proof header (mmr_size, path_len)
		let buf: [u8; 32] = nd::any();
		let mut i = 0;
		while i < 32 {
			nd::assume(buf[i] < 128);
			i += 1;
		}
		let s = unsafe { core::str::from_utf8_unchecked(&buf) };
		env::alloc_reset();
		env::alloc_limit(alloc_bound(32));
		let r = MerkleProof::from_hex(s);
		check!(env::alloc_max() <= alloc_bound(32), "allocation bounded");
		cover!(r.is_ok(), "a hex proof decodes");
		core::mem::forget(r);
	}
}

proof! {
	fn util_from_hex_utf8_4() {
		// any valid UTF-8 string of 4 bytes (JSON strings reach from_hex unfiltered)
		let buf: [u8; 4] = nd::any();
		let s = core::str::from_utf8(&buf);
		nd::assume(s.is_ok());
		let r = grin_util::from_hex(s.unwrap());
		cover!(r.is_ok(), "valid hex");
		cover!(r.is_err(), "invalid hex");
		core::mem::forget(r);
	}
}

// ---------------------------------------------------------------------------------------
// post-decode stateless check: Segment::validate on whatever decoded (clause iv)

fn any_hash() -> Hash {
	let b: [u8; 32] = nd::any();
	Hash::from_vec(&b)
}

/// A decoded-shape segment over `OutputIdentifier` leaves: `NH` hashes, `NL` leaves, `NP` proof
/// hashes, all contents and positions symbolic (positions strictly increasing, as `read` enforces).
fn any_segment<const NH: usize, const NL: usize, const NP: usize>(
	id: SegmentIdentifier,
) -> Segment<OutputIdentifier> {
	let mut hash_pos = Vec::with_capacity(NH);
	let mut hashes = Vec::with_capacity(NH);
	let mut last = 0u64;
	let mut i = 0;
	while i < NH {
		let p: u64 = nd::any();
		nd::assume(p > last); // 1-based on the wire, strictly increasing
		last = p;
		hash_pos.push(p - 1);
		hashes.push(any_hash());
		i += 1;
	}
	let mut leaf_pos = Vec::with_capacity(NL);
	let mut leaf_data = Vec::with_capacity(NL);
	last = 0;
	i = 0;
	while i < NL {
		let p: u64 = nd::any();
		nd::assume(p > last);
		last = p;
		leaf_pos.push(p - 1);
		let c: [u8; 33] = nd::any();
		let f: bool = nd::any();
		leaf_data.push(OutputIdentifier::new(
			if f { grin_core::core::OutputFeatures::Coinbase } else { grin_core::core::OutputFeatures::Plain },
			&grin_util::secp::pedersen::Commitment(c),
		));
		i += 1;
	}
	// `SegmentProof` is a single-field struct around Vec<Hash> without a public constructor;
	// decoding one here made CBMC unwind the decoder's count loop to the bound, so the value
	// is built directly (layout asserted below)
	let mut ph: Vec<Hash> = Vec::with_capacity(NP);
	i = 0;
	while i < NP {
		ph.push(any_hash());
		i += 1;
	}
	const _: () = assert!(core::mem::size_of::<SegmentProof>() == core::mem::size_of::<Vec<Hash>>());
	let proof: SegmentProof = unsafe { core::mem::transmute::<Vec<Hash>, SegmentProof>(ph) };
	Segment::from_parts(id, hash_pos, hashes, leaf_pos, leaf_data, proof)
}

/// One concrete identifier / mmr size / shape; contents, positions and root symbolic.
/// (With a symbolic identifier the loops of `Segment::root` are unwound to the limit at every
/// `peak_map_height` call; concrete identifiers are enumerated instead — DESIGN §6 C11.)
fn seg_case<const H: u8, const IDX: u64, const SIZE: u64, const NH: usize, const NL: usize, const NP: usize>() {
	let id = SegmentIdentifier { height: H, idx: IDX };
	let seg = any_segment::<NH, NL, NP>(id);
	let root = any_hash();
	let r = seg.validate(SIZE, None, root);
	cover!(r.is_err(), "refused");
	core::mem::forget(r);
	core::mem::forget(seg);
}

/// all segment indices 0..=4 (in range, last, and past the end) for one height / size / shape
fn seg_cases<const H: u8, const SIZE: u64, const NH: usize, const NL: usize, const NP: usize>() {
	seg_case::<H, 0, SIZE, NH, NL, NP>();
	seg_case::<H, 1, SIZE, NH, NL, NP>();
	seg_case::<H, 2, SIZE, NH, NL, NP>();
	seg_case::<H, 3, SIZE, NH, NL, NP>();
	seg_case::<H, 4, SIZE, NH, NL, NP>();
}

macro_rules! seg_validate {
	($name:ident, $h:expr, $size:expr, $nh:expr, $nl:expr, $np:expr) => {
		proof! { [hash_mix] fn $name() { seg_cases::<$h, $size, $nh, $nl, $np>(); } }
	};
}
seg_validate!(segment_validate_h0_s1_empty, 0, 1, 0, 0, 0);
seg_validate!(segment_validate_h0_s4, 0, 4, 0, 1, 2);
seg_validate!(segment_validate_h1_s4_empty, 1, 4, 0, 0, 0);
seg_validate!(segment_validate_h1_s4, 1, 4, 0, 2, 1);
seg_validate!(segment_validate_h1_s7, 1, 7, 1, 2, 1);
seg_validate!(segment_validate_h2_s10_empty, 2, 10, 0, 0, 0);
seg_validate!(segment_validate_h2_s11, 2, 11, 1, 3, 1);

pub const HARNESSES: &[(&str, fn())] = &[
	("c11::merkle_proof_read_16", merkle_proof_read_16),
	("c11::merkle_proof_read_48", merkle_proof_read_48),
	("c11::segment_proof_read_8", segment_proof_read_8),
	("c11::segment_proof_read_40", segment_proof_read_40),
	("c11::segment_identifier_read_9", segment_identifier_read_9),
	("c11::txkernel_read_114", txkernel_read_114),
	("c11::txkernel_read_60", txkernel_read_60),
	("c11::rangeproof_read_length_boundaries", rangeproof_read_length_boundaries),
	("c11::rangeproof_read_24", rangeproof_read_24),
	("c11::transaction_body_read_64", transaction_body_read_64),
	("c11::pow_proof_read_edge_bits_sweep", pow_proof_read_edge_bits_sweep),
	("c11::p2p_hand_read_96", p2p_hand_read_96),
	("c11::p2p_shake_read_64", p2p_shake_read_64),
	("c11::p2p_peer_addrs_read_48", p2p_peer_addrs_read_48),
	("c11::p2p_locator_read_40", p2p_locator_read_40),
	("c11::p2p_peer_error_read_24", p2p_peer_error_read_24),
	("c11::p2p_ping_read_16", p2p_ping_read_16),
	("c11::p2p_ban_reason_read_4", p2p_ban_reason_read_4),
	("c11::p2p_segment_request_read_41", p2p_segment_request_read_41),
	("c11::p2p_txhashset_request_read_40", p2p_txhashset_request_read_40),
	("c11::bitmap_segment_read_48", bitmap_segment_read_48),
	("c11::merkle_proof_from_hex_ascii_32", merkle_proof_from_hex_ascii_32),
	("c11::util_from_hex_utf8_4", util_from_hex_utf8_4),
	("c11::segment_validate_h0_s1_empty", segment_validate_h0_s1_empty),
	("c11::segment_validate_h0_s4", segment_validate_h0_s4),
	("c11::segment_validate_h1_s4_empty", segment_validate_h1_s4_empty),
	("c11::segment_validate_h1_s4", segment_validate_h1_s4),
	("c11::segment_validate_h1_s7", segment_validate_h1_s7),
	("c11::segment_validate_h2_s10_empty", segment_validate_h2_s10_empty),
	("c11::segment_validate_h2_s11", segment_validate_h2_s11),
];
