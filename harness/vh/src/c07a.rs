//! C07 family A — MMR position arithmetic at full machine width, against the defining
//! construction of the post-order numbering:
//!   * appending the (n+1)-th leaf creates exactly trailing_zeros(n+1) parents right after it,
//!     of heights 1, 2, ...  (this *is* the MMR append rule);
//!   * a node is a right child iff the very next position is its parent.
//! No second algorithm is compared (a miter of two unrelated 64-step loops did not finish in
//! 20 min); the definition is stated relationally and the solver checks the relation for every
//! u64 below 2^62.
base_uses!();
use crate::nd;
use grin_core::core::pmmr;

const fn parse_bits() -> u32 {
	match option_env!("VH_LIMBITS") {
		Some(s) => {
			let b = s.as_bytes();
			let mut v = 0u32;
			let mut i = 0;
			while i < b.len() {
				v = v * 10 + (b[i] - b'0') as u32;
				i += 1;
			}
			v
		}
		None => 62,
	}
}
const LIM: u64 = 1 << parse_bits();

/// leaf position function of the implementation; `leaf_positions_follow_append_rule` shows by
/// induction (base + step, every n) that it equals the append rule of the definition.
fn leaf_pos(n: u64) -> u64 {
	pmmr::insertion_to_pmmr_index(n)
}

/// height function of the implementation; `height_by_append_rule` shows it equals the
/// definition for every position, the other harnesses then use it as the reference height.
fn height(p: u64) -> u64 {
	pmmr::bintree_postorder_height(p)
}

proof! {
	fn leaf_positions_follow_append_rule() {
		// base + step of the MMR append rule: pos(0) = 0, pos(n+1) = pos(n) + 1 + tz(n+1)
		check!(leaf_pos(0) == 0, "first leaf at position 0");
		let n: u64 = nd::any();
		nd::assume(n < LIM);
		let p = leaf_pos(n);
		let q = leaf_pos(n + 1);
		let parents = (n + 1).trailing_zeros() as u64;
		check!(q == p + 1 + parents, "next leaf follows the parents created by this one");
		cover!(parents >= 3, "leaf closing a subtree of height 3 or more");
	}
}

proof! {
	fn height_by_append_rule() {
		// every position p lies in exactly one interval [pos(n), pos(n+1)); by the append rule
		// it is the (p - pos(n))-th node created when leaf n was pushed: the leaf itself
		// (height 0) or its k-th new parent (height k).
		let p: u64 = nd::any();
		let n: u64 = nd::any();
		nd::assume(p < LIM && n < LIM);
		nd::assume(leaf_pos(n) <= p && p < leaf_pos(n + 1));
		let k = p - leaf_pos(n);
		check!(height(p) == k, "height == index among the nodes created by one push");
		check!(pmmr::is_leaf(p) == (k == 0), "is_leaf");
		let li = pmmr::pmmr_leaf_to_insertion_index(p);
		check!(if k == 0 { li == Some(n) } else { li.is_none() }, "leaf index is the inverse of leaf position, None on parents");
		// number of leaves of an mmr of size p+1 (positions <= p) is n+1
		check!(pmmr::n_leaves(p + 1) == n + 1, "n_leaves counts the leaf positions inside");
		// least leaf position >= p
		let r = pmmr::round_up_to_leaf_pos(p);
		check!(r == if k == 0 { p } else { leaf_pos(n + 1) }, "round_up_to_leaf_pos");
		cover!(k == 0, "leaf");
		cover!(k == 5, "node of height 5");
	}
}

proof! {
	fn family_matches_tree() {
		let p: u64 = nd::any();
		nd::assume(p < LIM);
		let h = height(p);
		let span = (2u64 << h) - 1; // size of a perfect subtree of height h
		// right child iff the next position is the parent (post-order)
		let is_right = height(p + 1) == h + 1;
		let (parent, sibling) = pmmr::family(p);
		if is_right {
			check!(parent == p + 1, "parent of a right child is the next position");
			check!(sibling == p - span, "sibling of a right child is one subtree to the left");
		} else {
			check!(sibling == p + span, "sibling of a left child is one subtree to the right");
			check!(parent == sibling + 1, "parent follows the right sibling");
		}
		check!(pmmr::is_left_sibling(p) == !is_right, "is_left_sibling");
		check!(height(sibling) == h && height(parent) == h + 1, "heights of the family");
		cover!(is_right && h > 3, "right child high up");
		cover!(!is_right && h > 3, "left child high up");
	}
}

proof! {
	fn family_is_symmetric() {
		let p: u64 = nd::any();
		nd::assume(p < LIM);
		let (parent, sibling) = pmmr::family(p);
		let (parent2, sibling2) = pmmr::family(sibling);
		check!(parent2 == parent && sibling2 == p, "family(sibling) == (parent, self)");
		check!(pmmr::is_left_sibling(p) != pmmr::is_left_sibling(sibling), "exactly one of the two is the left one");
	}
}

proof! {
	fn subtree_ranges() {
		let p: u64 = nd::any();
		nd::assume(p < LIM);
		let h = height(p);
		let size = (2u64 << h) - 1;
		let lm = pmmr::bintree_leftmost(p);
		let rm = pmmr::bintree_rightmost(p);
		let r = pmmr::bintree_range(p);
		check!(lm == p + 1 - size, "leftmost leaf = root - (subtree size - 1)");
		check!(rm == p - h, "rightmost leaf = root - height");
		check!(r.start == lm && r.end == p + 1, "bintree_range = [leftmost, root]");
		check!(height(lm) == 0 && height(rm) == 0, "both ends are leaves");
		// number of leaves under the root is 2^h
		let li = pmmr::pmmr_leaf_to_insertion_index(lm);
		let ri = pmmr::pmmr_leaf_to_insertion_index(rm);
		check!(li.is_some() && ri.is_some(), "ends have leaf indices");
		check!(ri.unwrap() - li.unwrap() + 1 == 1u64 << h, "2^h leaves under a node of height h");
		cover!(h == 5, "height 5");
	}
}

proof! {
	fn peaks_decompose_size() {
		let s: u64 = nd::any();
		nd::assume(s < LIM);
		let valid = height(s) == 0; // the next node to append is a leaf
		let peaks = pmmr::peaks(s);
		check!(peaks.is_empty() == (!valid || s == 0), "peaks empty iff size invalid (or zero)");
		// walk the peaks: perfect trees (size 2^k - 1) laid left to right, strictly shrinking
		let mut start = 0u64;
		let mut prev = u64::MAX;
		let mut i = 0usize;
		while i < peaks.len() {
			let sz = peaks[i] + 1 - start;
			check!(sz > 0 && sz & (sz + 1) == 0, "each peak is the root of a perfect tree");
			check!(sz < prev, "peak sizes strictly decrease");
			start = peaks[i] + 1;
			prev = sz;
			i += 1;
		}
		check!(!valid || start == s, "peaks cover exactly the mmr");
		cover!(peaks.len() == 3, "three peaks");
		let (sizes, hh) = pmmr::peak_sizes_height(s);
		check!(hh == height(s), "height of next node");
		check!(!valid || sizes.len() == peaks.len(), "as many peak sizes as peaks");
	}
}

proof! {
	fn family_branch_is_iterated_family() {
		let p: u64 = nd::any();
		let s: u64 = nd::any();
		nd::assume(s < LIM && p < s);
		let br = pmmr::family_branch(p, s);
		// symbolic step index instead of a loop: the i-th entry is family(of the (i-1)-th parent)
		let i: usize = nd::any();
		nd::assume(i < br.len());
		let cur = if i == 0 { p } else { br[i - 1].0 };
		let (par, sib) = pmmr::family(cur);
		check!(br[i] == (par, sib), "branch step == family(current)");
		check!(par < s, "parents stay inside the mmr");
		cover!(i == 4, "fifth step of a branch");
	}
}

proof! {
	fn family_branch_is_maximal() {
		let p: u64 = nd::any();
		let s: u64 = nd::any();
		nd::assume(s < LIM && p < s);
		let br = pmmr::family_branch(p, s);
		let last = if br.is_empty() { p } else { br[br.len() - 1].0 };
		let (par, _) = pmmr::family(last);
		check!(par >= s, "the walk stops only when the next parent leaves the mmr");
		cover!(br.len() == 4, "branch of four");
	}
}

pub const HARNESSES: &[(&str, fn())] = &[
	("c07a::leaf_positions_follow_append_rule", leaf_positions_follow_append_rule),
	("c07a::height_by_append_rule", height_by_append_rule),
	("c07a::family_matches_tree", family_matches_tree),
	("c07a::family_is_symmetric", family_is_symmetric),
	("c07a::subtree_ranges", subtree_ranges),
	("c07a::peaks_decompose_size", peaks_decompose_size),
	("c07a::family_branch_is_iterated_family", family_branch_is_iterated_family),
	("c07a::family_branch_is_maximal", family_branch_is_maximal),
];
