//! C13 — the stateless height rules: absolute kernel lock heights and NRD kernels in blocks.
base_uses!();
use crate::{env, nd};
use grin_core::core::block::{Block, BlockHeader, Error as BlockError, HeaderVersion};
use grin_core::core::transaction::{KernelFeatures, NRDRelativeHeight};
use grin_core::core::{Inputs, TransactionBody, TxKernel};
use grin_util::secp::pedersen::Commitment;
use grin_util::secp::Signature;

fn kernel(features: KernelFeatures, tagbyte: u8) -> TxKernel {
	let mut c = [0u8; 33];
	c[0] = 8;
	c[1] = tagbyte;
	TxKernel { features, excess: Commitment(c), excess_sig: Signature::from_raw_data(&[0u8; 64]).unwrap() }
}

fn fee(v: u64) -> grin_core::core::transaction::FeeFields {
	let b = v.to_be_bytes();
	grin_core::ser::deserialize_default(&mut &b[..]).unwrap()
}

/// a kernel of symbolic variant: plain, height-locked with symbolic lock height, or NRD
fn any_kernel(tagbyte: u8) -> (TxKernel, Option<u64>, bool) {
	let t: u8 = nd::any();
	nd::assume(t < 3);
	match t {
		0 => (kernel(KernelFeatures::Plain { fee: fee(1) }, tagbyte), None, false),
		1 => {
			let lh: u64 = nd::any();
			(kernel(KernelFeatures::HeightLocked { fee: fee(1), lock_height: lh }, tagbyte), Some(lh), false)
		}
		_ => {
			let rh: u16 = nd::any();
			nd::assume(rh >= 1 && rh <= 10080);
			(kernel(KernelFeatures::NoRecentDuplicate { fee: fee(1), relative_height: NRDRelativeHeight::new(rh as u64).unwrap() }, tagbyte), None, true)
		}
	}
}

/// kernel i of the block: height-locked with a symbolic lock height if bit i of SHAPE is set,
/// plain otherwise (variants concrete per query, lock heights symbolic)
const SHAPE: u64 = {
	match option_env!("VH_SHAPE") {
		Some(s) => (s.as_bytes()[0] - b'0') as u64,
		None => 3,
	}
};

proof! {
	[hash_mix, zeroize, sort] fn block_lock_heights() {
		env::set_chain_type(grin_core::global::ChainTypes::Mainnet);
		// the NRD feature flag only gates verify_no_nrd_duplicates (not this rule); with it off the
		// query is as cheap as the plain shapes (with it on: > 660 s)
		env::set_nrd_enabled(false);
		let height: u64 = nd::any();
		let mk = |bit: u64, tagbyte: u8| -> (TxKernel, Option<u64>) {
			// shapes 4 / 5: kernel 0 / kernel 1 is an NRD kernel (relative lock: nothing for this
			// rule to check, and it must not stop the scan), the other one is height-locked
			if (SHAPE == 4 && bit == 0) || (SHAPE == 5 && bit == 1) {
				let rh: u16 = nd::any();
				nd::assume(rh >= 1 && rh <= 10080);
				(kernel(KernelFeatures::NoRecentDuplicate { fee: fee(1), relative_height: NRDRelativeHeight::new(rh as u64).unwrap() }, tagbyte), None)
			} else if SHAPE >= 4 || SHAPE >> bit & 1 == 1 {
				let lh: u64 = nd::any();
				(kernel(KernelFeatures::HeightLocked { fee: fee(1), lock_height: lh }, tagbyte), Some(lh))
			} else {
				(kernel(KernelFeatures::Plain { fee: fee(1) }, tagbyte), None)
			}
		};
		let (k1, lh1) = mk(0, 1);
		let (k2, lh2) = mk(1, 2);
		let mut header = BlockHeader::default();
		header.height = height;
		let block = Block {
			header,
			body: TransactionBody { inputs: Inputs::default(), outputs: vec![], kernels: vec![k1, k2] },
		};
		let r = block.validate_read();
		let too_early = |lh: Option<u64>| match lh { Some(l) => l > height, None => false };
		let violated = too_early(lh1) || too_early(lh2);
		check!(!(r.is_ok() && violated), "a block holding a kernel locked above its height is never accepted");
		if let Err(BlockError::KernelLockHeight(l)) = &r {
			check!(*l > height && (lh1 == Some(*l) || lh2 == Some(*l)), "the lock-height error names a kernel locked above the block height");
		}
		// boundaries: one below, at, one above
		cover!(r.is_ok(), "accepted");
		cover!(r.is_ok() && (lh1 == Some(height) || lh2 == Some(height)), "kernel locked exactly at the block height accepted");
		cover!(matches!(r, Err(BlockError::KernelLockHeight(_))) && (lh1 == Some(height.wrapping_add(1)) || lh2 == Some(height.wrapping_add(1))), "lock one above refused");
		core::mem::forget(r);
		core::mem::forget(block);
	}
}

proof! {
	fn nrd_relative_height_range() {
		let h: u64 = nd::any();
		let r = NRDRelativeHeight::new(h);
		check!(r.is_ok() == (h >= 1 && h <= grin_core::consensus::WEEK_HEIGHT), "NRD relative height accepts exactly 1..=WEEK_HEIGHT");
		let h16: u16 = nd::any();
		let b = h16.to_be_bytes();
		let d = grin_core::ser::deserialize_default::<NRDRelativeHeight, _>(&mut &b[..]);
		check!(d.is_ok() == (h16 >= 1 && h16 as u64 <= grin_core::consensus::WEEK_HEIGHT), "and so does its decoder");
		cover!(r.is_ok(), "valid");
	}
}

proof! {
	[hash_mix] fn body_lock_height_is_max() {
		// TransactionBody::lock_height (what the pool hands to the chain) = max over height-locked kernels
		env::set_nrd_enabled(true);
		let (k1, lh1, _) = any_kernel(1);
		let (k2, lh2, _) = any_kernel(2);
		let body = TransactionBody { inputs: Inputs::default(), outputs: vec![], kernels: vec![k1, k2] };
		let l = body.lock_height();
		let a = lh1.unwrap_or(0);
		let b = lh2.unwrap_or(0);
		check!(l == if a > b { a } else { b }, "lock_height = max of the kernels' absolute lock heights (0 if none)");
		core::mem::forget(body);
	}
}

pub const HARNESSES: &[(&str, fn())] = &[
	("c13::block_lock_heights", block_lock_heights),
	("c13::nrd_relative_height_range", nrd_relative_height_range),
	("c13::body_lock_height_is_max", body_lock_height_is_max),
];
