//! C16 — segments: what a node produces validates (completeness) and any corruption of a part
//! the root depends on is rejected (soundness, under the ideal hash). Non-prunable MMR.
base_uses!();
use crate::c07b::Elem;
use crate::{env, nd};
use grin_core::core::hash::Hash;
use grin_core::core::pmmr::segment::{Segment, SegmentError, SegmentIdentifier, SegmentProof};
use grin_core::core::pmmr::{self, ReadablePMMR, ReadonlyPMMR, VecBackend, PMMR};

const fn parse_env(s: Option<&str>, default: u64) -> u64 {
	match s {
		Some(s) => {
			let b = s.as_bytes();
			let mut v = 0u64;
			let mut i = 0;
			while i < b.len() {
				v = v * 10 + (b[i] - b'0') as u64;
				i += 1;
			}
			v
		}
		None => default,
	}
}
const NL: usize = parse_env(option_env!("VH_NLEAF"), 3) as usize;
const SIZE: u64 = (2 * NL - (NL as u64).count_ones() as usize) as u64;
const H: u8 = parse_env(option_env!("VH_SEGH"), 1) as u8;
const IDX: u64 = parse_env(option_env!("VH_SEGIDX"), 0);

fn build() -> (VecBackend<Elem>, [Elem; NL]) {
	let mut leaves = [Elem(0); NL];
	let mut ba = VecBackend::new();
	{
		let mut mmr = PMMR::new(&mut ba);
		let mut i = 0;
		while i < NL {
			leaves[i] = Elem(nd::any());
			mmr.push(&leaves[i]).unwrap();
			i += 1;
		}
	}
	(ba, leaves)
}

fn proof_hashes(p: SegmentProof) -> Vec<Hash> {
	const _: () = assert!(core::mem::size_of::<SegmentProof>() == core::mem::size_of::<Vec<Hash>>());
	unsafe { core::mem::transmute::<SegmentProof, Vec<Hash>>(p) }
}
fn proof_from(v: Vec<Hash>) -> SegmentProof {
	unsafe { core::mem::transmute::<Vec<Hash>, SegmentProof>(v) }
}

proof! {
	[hash_mix, rand] fn segment_complete() {
		// what from_pmmr produces validates against the mmr root, alone and under a merged root
		let (ba, _leaves) = build();
		let mmr = ReadonlyPMMR::at(&ba, SIZE);
		let root = mmr.root().unwrap();
		let id = SegmentIdentifier { height: H, idx: IDX };
		let seg = Segment::<Elem>::from_pmmr(id, &mmr, false);
		let exists = IDX * (1u64 << H) < NL as u64;
		check!(seg.is_ok() == exists, "a segment exists iff its first leaf is inside the mmr");
		if let Ok(seg) = seg {
			check!(seg.validate(SIZE, None, root).is_ok(), "honest segment validates against the root");
			// merged-root form used for the output/bitmap pairing
			let other: [u8; 32] = nd::any();
			let other = Hash::from_vec(&other);
			let left: bool = nd::any();
			use grin_core::ser::PMMRIndexHashable;
			let merged = if left { (other, root).hash_with_index(SIZE) } else { (root, other).hash_with_index(SIZE) };
			check!(seg.validate_with(SIZE, None, merged, SIZE, other, left).is_ok(), "and under a merged root");
			cover!(true, "segment produced");
			core::mem::forget(seg);
		}
		core::mem::forget(ba);
	}
}

proof! {
	[hash_ideal, rand] fn segment_sound() {
		let (ba, leaves) = build();
		let mmr = ReadonlyPMMR::at(&ba, SIZE);
		let root = mmr.root().unwrap();
		let id = SegmentIdentifier { height: H, idx: IDX };
		let seg = Segment::<Elem>::from_pmmr(id, &mmr, false).unwrap();
		check!(seg.validate(SIZE, None, root).is_ok(), "honest segment validates");
		let (id, hash_pos, hashes, mut leaf_pos, mut leaf_data, proof) = seg.parts();
		let mut ph = proof_hashes(proof);
		let mut id2 = id;
		let kind: u8 = nd::any();
		nd::assume(kind < 6);
		match kind {
			0 => {
				// a leaf's data
				let j: usize = nd::any();
				nd::assume(j < leaf_data.len());
				let e = Elem(nd::any());
				nd::assume(e != leaf_data[j]);
				leaf_data[j] = e;
				cover!(true, "leaf data changed");
			}
			1 => {
				// a leaf's position (kept strictly increasing so that from_parts accepts it)
				let j: usize = nd::any();
				nd::assume(j < leaf_pos.len());
				let p: u64 = nd::any();
				nd::assume(p != leaf_pos[j] && p < 64);
				nd::assume(j == 0 || leaf_pos[j - 1] < p);
				nd::assume(j + 1 >= leaf_pos.len() || p < leaf_pos[j + 1]);
				leaf_pos[j] = p;
				cover!(true, "leaf position changed");
			}
			2 => {
				// a proof hash
				let j: usize = nd::any();
				nd::assume(j < ph.len());
				let x: [u8; 32] = nd::any();
				nd::assume(Hash::from_vec(&x) != ph[j]);
				ph[j] = Hash::from_vec(&x);
				cover!(true, "proof hash changed");
			}
			3 => {
				// a leaf dropped
				nd::assume(!leaf_data.is_empty());
				let last: bool = nd::any();
				if last { leaf_data.pop(); leaf_pos.pop(); } else { leaf_data.remove(0); leaf_pos.remove(0); }
				cover!(true, "leaf dropped");
			}
			4 => {
				// a proof hash dropped
				nd::assume(!ph.is_empty());
				ph.pop();
				cover!(true, "proof hash dropped");
			}
			_ => {
				// another identifier (same height, other index)
				let i2: u64 = nd::any();
				nd::assume(i2 != IDX && i2 < 4);
				id2 = SegmentIdentifier { height: H, idx: i2 };
				cover!(true, "identifier changed");
			}
		}
		let _ = &leaves;
		let seg2 = Segment::from_parts(id2, hash_pos, hashes, leaf_pos, leaf_data, proof_from(ph));
		let r = seg2.validate(SIZE, None, root);
		check!(r.is_err(), "a segment with any part its root depends on corrupted never validates");
		core::mem::forget(seg2);
		core::mem::forget(ba);
	}
}

pub const HARNESSES: &[(&str, fn())] = &[
	("c16::segment_complete", segment_complete),
	("c16::segment_sound", segment_sound),
];
