//! C16 — segments: what a node produces validates (completeness) and any corruption of a part
//! the root depends on is rejected (soundness, under the ideal hash). Non-prunable MMR.
base_uses!();
use crate::c07b::Elem;
use crate::{env, nd};
use grin_core::core::hash::Hash;
use grin_core::core::pmmr::segment::{Segment, SegmentError, SegmentIdentifier, SegmentProof};
use grin_core::core::pmmr::{self, ReadablePMMR, ReadonlyPMMR, VecBackend, PMMR};

const fn parse_env(s: Option<&str>, default: u64) -> u64 {
	match s {
		Some(s) => {
			let b = s.as_bytes();
			let mut v = 0u64;
			let mut i = 0;
			while i < b.len() {
				v = v * 10 + (b[i] - b'0') as u64;
				i += 1;
			}
			v
		}
		None => default,
	}
}
const NL: usize = parse_env(option_env!("VH_NLEAF"), 3) as usize;
const SIZE: u64 = (2 * NL - (NL as u64).count_ones() as usize) as u64;
const H: u8 = parse_env(option_env!("VH_SEGH"), 1) as u8;
const IDX: u64 = parse_env(option_env!("VH_SEGIDX"), 0);

fn build() -> (VecBackend<Elem>, [Elem; NL]) {
	let mut leaves = [Elem(0); NL];
	let mut ba = VecBackend::new();
	{
		let mut mmr = PMMR::new(&mut ba);
		let mut i = 0;
		while i < NL {
			leaves[i] = Elem(nd::any());
			mmr.push(&leaves[i]).unwrap();
			i += 1;
		}
	}
	(ba, leaves)
}

fn proof_hashes(p: SegmentProof) -> Vec<Hash> {
	const _: () = assert!(core::mem::size_of::<SegmentProof>() == core::mem::size_of::<Vec<Hash>>());
	unsafe { core::mem::transmute::<SegmentProof, Vec<Hash>>(p) }
}
fn proof_from(v: Vec<Hash>) -> SegmentProof {
	unsafe { core::mem::transmute::<Vec<Hash>, SegmentProof>(v) }
}

proof! {
	[hash_mix, rand] fn segment_complete() {
		// what from_pmmr produces validates against the mmr root, alone and under a merged root
		let (ba, _leaves) = build();
		let mmr = ReadonlyPMMR::at(&ba, SIZE);
		let root = mmr.root().unwrap();
		let id = SegmentIdentifier { height: H, idx: IDX };
		let seg = Segment::<Elem>::from_pmmr(id, &mmr, false);
		let exists = IDX * (1u64 << H) < NL as u64;
		check!(seg.is_ok() == exists, "a segment exists iff its first leaf is inside the mmr");
		if let Ok(seg) = seg {
			check!(seg.validate(SIZE, None, root).is_ok(), "honest segment validates against the root");
			// merged-root form used for the output/bitmap pairing
			let other: [u8; 32] = nd::any();
			let other = Hash::from_vec(&other);
			let left: bool = nd::any();
			use grin_core::ser::PMMRIndexHashable;
			let merged = if left { (other, root).hash_with_index(SIZE) } else { (root, other).hash_with_index(SIZE) };
			check!(seg.validate_with(SIZE, None, merged, SIZE, other, left).is_ok(), "and under a merged root");
			cover!(true, "segment produced");
			core::mem::forget(seg);
		}
		core::mem::forget(ba);
	}
}

fn rebuild(
	id: SegmentIdentifier,
	parts: &(Vec<u64>, Vec<Hash>, Vec<u64>, Vec<Elem>, Vec<Hash>),
) -> Segment<Elem> {
	Segment::from_parts(id, parts.0.clone(), parts.1.clone(), parts.2.clone(), parts.3.clone(), proof_from(parts.4.clone()))
}

proof! {
	[hash_ideal, rand] fn segment_sound() {
		// indices enumerated concretely, substituted values symbolic
		let (ba, _leaves) = build();
		let mmr = ReadonlyPMMR::at(&ba, SIZE);
		let root = mmr.root().unwrap();
		let id = SegmentIdentifier { height: H, idx: IDX };
		let seg = Segment::<Elem>::from_pmmr(id, &mmr, false).unwrap();
		check!(seg.validate(SIZE, None, root).is_ok(), "honest segment validates");
		let (id, hash_pos, hashes, leaf_pos, leaf_data, proof) = seg.parts();
		let honest = (hash_pos, hashes, leaf_pos, leaf_data, proof_hashes(proof));
		let x: [u8; 32] = nd::any();
		let xh = Hash::from_vec(&x);
		let e = Elem(nd::any());
		// (1) a leaf's data
		let mut j = 0;
		while j < honest.3.len() {
			if e != honest.3[j] {
				let mut p = (honest.0.clone(), honest.1.clone(), honest.2.clone(), honest.3.clone(), honest.4.clone());
				p.3[j] = e;
				let s2 = rebuild(id, &p);
				check!(s2.validate(SIZE, None, root).is_err(), "changed leaf data never validates");
				core::mem::forget(s2);
			}
			j += 1;
		}
		// (2) a proof hash
		j = 0;
		while j < honest.4.len() {
			if xh != honest.4[j] {
				let mut p = (honest.0.clone(), honest.1.clone(), honest.2.clone(), honest.3.clone(), honest.4.clone());
				p.4[j] = xh;
				let s2 = rebuild(id, &p);
				check!(s2.validate(SIZE, None, root).is_err(), "changed proof hash never validates");
				core::mem::forget(s2);
			}
			j += 1;
		}
		// (3) a leaf dropped (first / last)
		if !honest.3.is_empty() {
			let mut p = (honest.0.clone(), honest.1.clone(), honest.2.clone(), honest.3.clone(), honest.4.clone());
			p.2.pop();
			p.3.pop();
			let s2 = rebuild(id, &p);
			check!(s2.validate(SIZE, None, root).is_err(), "dropping the last leaf never validates");
			core::mem::forget(s2);
			let mut p = (honest.0.clone(), honest.1.clone(), honest.2.clone(), honest.3.clone(), honest.4.clone());
			p.2.remove(0);
			p.3.remove(0);
			let s2 = rebuild(id, &p);
			check!(s2.validate(SIZE, None, root).is_err(), "dropping the first leaf never validates");
			core::mem::forget(s2);
		}
		// (4) a proof hash dropped
		if !honest.4.is_empty() {
			let mut p = (honest.0.clone(), honest.1.clone(), honest.2.clone(), honest.3.clone(), honest.4.clone());
			p.4.pop();
			let s2 = rebuild(id, &p);
			check!(s2.validate(SIZE, None, root).is_err(), "dropping a proof hash never validates");
			core::mem::forget(s2);
		}
		// (5) a leaf moved to another position (positions of the mmr, kept strictly increasing)
		j = 0;
		while j < honest.2.len() {
			let mut q = 0u64;
			while q < SIZE {
				let lo_ok = j == 0 || honest.2[j - 1] < q;
				let hi_ok = j + 1 >= honest.2.len() || q < honest.2[j + 1];
				if q != honest.2[j] && lo_ok && hi_ok {
					let mut p = (honest.0.clone(), honest.1.clone(), honest.2.clone(), honest.3.clone(), honest.4.clone());
					p.2[j] = q;
					let s2 = rebuild(id, &p);
					check!(s2.validate(SIZE, None, root).is_err(), "a leaf at another position never validates");
					core::mem::forget(s2);
				}
				q += 1;
			}
			j += 1;
		}
		// (6) another identifier
		let mut i2 = 0u64;
		while i2 < 4 {
			if i2 != IDX {
				let s2 = rebuild(SegmentIdentifier { height: H, idx: i2 }, &honest);
				check!(s2.validate(SIZE, None, root).is_err(), "the same parts under another identifier never validate");
				core::mem::forget(s2);
			}
			i2 += 1;
		}
		core::mem::forget(ba);
	}
}

proof! {
	[hash_mix, rand, bitmap] fn segment_prunable_uncompacted_complete() {
		// A prunable MMR whose spent leaves are pruned but not yet compacted away: the serving node
		// still has every hash, so the segment it produces (prunable = true) carries all of them.
		// Whatever the unspent bitmap says (any subset of the leaves: whole segment spent, sibling
		// subtree spent too, alternating, ...), that honest segment must validate against the root.
		let (ba, _leaves) = build();
		let mmr = ReadonlyPMMR::at(&ba, SIZE);
		let root = mmr.root().unwrap();
		let id = SegmentIdentifier { height: H, idx: IDX };
		let seg = Segment::<Elem>::from_pmmr(id, &mmr, true).unwrap();
		let mask: u8 = nd::any();
		nd::assume((mask as u64) < (1u64 << NL));
		let mut bm = croaring::Bitmap::new();
		let mut i = 0;
		while i < NL {
			if mask >> i & 1 == 1 {
				bm.add(i as u32);
			}
			i += 1;
		}
		let r = seg.validate(SIZE, Some(&bm), root);
		check!(r.is_ok(), "an honest uncompacted segment validates under every unspent bitmap");
		let first_leaf = (IDX << H) as usize;
		let seg_leaves = core::cmp::min(1usize << H, NL.saturating_sub(first_leaf));
		let seg_mask = (((1u32 << seg_leaves) - 1) << first_leaf) as u8;
		cover!(mask & seg_mask == 0, "every leaf of the segment is spent");
		cover!(mask == 0, "everything is spent");
		cover!(mask & seg_mask == seg_mask, "every leaf of the segment is unspent");
		core::mem::forget(seg);
		core::mem::forget(ba);
	}
}

const fn parse_bits16() -> u32 {
	parse_env(option_env!("VH_LIMBITS"), 16) as u32
}

proof! {
	fn segment_identifier_arithmetic() {
		// SegmentIdentifier's position arithmetic against closed forms of the MMR definition:
		// the n-th leaf (0-based) sits at position 2n - popcount(n); an MMR of n leaves has that
		// many positions; a full segment of height h is the perfect subtree over 2^h leaves
		// (2^(h+1) - 1 positions, root last); the last, partial segment runs to the end of the MMR
		let n: u64 = nd::any();
		nd::assume(n >= 1 && n < (1u64 << parse_bits16()));
		let size = 2 * n - n.count_ones() as u64;
		let h: u8 = nd::any();
		nd::assume(h <= 13);
		let cap = 1u64 << h;
		let idx: u64 = nd::any();
		nd::assume(idx < (1 << 20));
		let id = SegmentIdentifier { height: h, idx };
		check!(id.segment_capacity() == cap, "capacity = 2^height leaves");
		let need = SegmentIdentifier::count_segments_required(size, h) as u64;
		check!(need == (n + cap - 1) / cap, "segments required = ceil(leaves / capacity)");
		check!((need - 1) * cap < n && n <= need * cap, "the last required segment is the one holding the last leaf");
		let k: u64 = nd::any();
		nd::assume(k < (1 << 20));
		let l = k * cap;
		check!(SegmentIdentifier::pmmr_size(k as usize, h) == 2 * l - l.count_ones() as u64, "pmmr_size = size of the MMR holding k full segments");
		let o = idx * cap;
		if o < n {
			let (first, last) = id.segment_pos_range(size);
			check!(first == 2 * o - o.count_ones() as u64, "first position = position of the segment's first leaf");
			if o + cap <= n {
				check!(last == first + 2 * cap - 2, "a full segment ends at the root of its perfect subtree");
				cover!(h >= 2 && idx >= 1, "full segment of height >= 2 past the first");
			} else {
				check!(last == size - 1, "the partial last segment runs to the end of the MMR");
				cover!(h >= 2 && idx >= 1, "partial last segment");
			}
			check!(first <= last && last < size, "inside the MMR");
		}
	}
}

const HPOS: u64 = parse_env(option_env!("VH_HPOS"), 6);
const HAVE: u8 = parse_env(option_env!("VH_HAVE"), 12) as u8;

proof! {
	[hash_mix, rand, bitmap] fn pruned_segment_parent_covers_only_spent_leaves() {
		// a segment whose own leaves are all spent and which carries a single hash at an ANCESTOR
		// of its root (what a compacted serving node sends): first_unpruned_parent - the hash
		// validate() checks the proof against - accepts that ancestor exactly when NO leaf under
		// it is unspent in the bitmap; an unspent leaf anywhere under it (leftmost, middle,
		// rightmost) means a leaf the bitmap marks unspent was omitted, and must be refused
		let id = SegmentIdentifier { height: H, idx: IDX };
		let hb: [u8; 32] = nd::any();
		let h = Hash::from_vec(&hb);
		let seg = Segment::<Elem>::from_parts(id, vec![HPOS], vec![h], vec![], vec![], proof_from(vec![]));
		let mask: u16 = nd::any();
		nd::assume((mask as u64) < (1u64 << NL));
		let mut bm = croaring::Bitmap::new();
		let mut i = 0;
		while i < NL {
			if mask >> i & 1 == 1 {
				bm.add(i as u32);
			}
			i += 1;
		}
		// leaves under HPOS, from the MMR definition: the subtree rooted at a position of height
		// g spans 2^g consecutive leaves ending at the leaf just before ... counted by positions
		let g = pmmr::bintree_postorder_height(HPOS);
		let leftmost_pos = HPOS + 2 - (2u64 << g);
		// leaf index of a leaf position p: number of leaf positions before it
		let mut first_leaf = 0u64;
		let mut n = 0u64;
		while n < NL as u64 {
			if 2 * n - n.count_ones() as u64 == leftmost_pos {
				first_leaf = n;
			}
			n += 1;
		}
		let mut under: u16 = 0;
		let mut k = 0u64;
		while k < (1u64 << g) {
			if first_leaf + k < NL as u64 {
				under |= 1 << (first_leaf + k);
			}
			k += 1;
		}
		let r = seg.first_unpruned_parent(SIZE, Some(&bm));
		let seg_first = (IDX << H) as usize;
		let seg_mask = (((1u32 << (1usize << H)) - 1) << seg_first) as u16;
		if mask & seg_mask == 0 {
			// the segment itself is fully spent: the only usable hash is the ancestor's
			match &r {
				Ok((rh, pos1)) => {
					check!(*pos1 == HPOS + 1 && *rh == h, "the hash returned is the one supplied for that ancestor");
					check!(mask & under == 0, "an ancestor hash is accepted only if every leaf under it is spent");
				}
				Err(_) => check!(mask & under != 0, "a fully spent subtree is represented by its root hash"),
			}
		} else {
			check!(r.is_err(), "unspent leaves of the segment without their data are refused");
		}
		cover!(r.is_ok(), "ancestor accepted");
		cover!(mask & seg_mask == 0 && (mask & under).count_ones() == 1, "exactly one leaf under the ancestor is unspent");
		cover!(mask & seg_mask == 0 && mask & under != 0 && r.is_err(), "ancestor refused");
		core::mem::forget(r);
		core::mem::forget(seg);
		core::mem::forget(bm);
	}
}

proof! {
	[hash_mix, rand, bitmap] fn prunable_segment_root_needs_unspent_leaves() {
		// the other half of "omitting a leaf the bitmap marks unspent makes validation fail": a
		// segment of height 2 (leaves 0..3 of an 8-leaf MMR) that carries an arbitrary subset of
		// its leaves plus the hashes of both height-1 parents: Segment::root - the first step of
		// validate() - succeeds only if every leaf the bitmap marks unspent is among the leaves
		// carried; and it succeeds whenever all four leaves are carried
		let id = SegmentIdentifier { height: 2, idx: 0 };
		// which leaves are carried is concrete per query (VH_HAVE, bit i = leaf i): a symbolic
		// subset makes the vector lengths symbolic and exhausted 20 GB
		let have: u8 = HAVE;
		const LEAF_POS: [u64; 4] = [0, 1, 3, 4];
		let mut leaf_pos = Vec::with_capacity(4);
		let mut leaf_data = Vec::with_capacity(4);
		let mut i = 0;
		while i < 4 {
			if have >> i & 1 == 1 {
				leaf_pos.push(LEAF_POS[i]);
				leaf_data.push(Elem(nd::any()));
			}
			i += 1;
		}
		let h2: [u8; 32] = nd::any();
		let h5: [u8; 32] = nd::any();
		let seg = Segment::<Elem>::from_parts(id, vec![2, 5], vec![Hash::from_vec(&h2), Hash::from_vec(&h5)], leaf_pos, leaf_data, proof_from(vec![]));
		let mask: u8 = nd::any();
		let mut bm = croaring::Bitmap::new();
		i = 0;
		while i < 8 {
			if mask >> i & 1 == 1 {
				bm.add(i as u32);
			}
			i += 1;
		}
		let r = seg.root(15, Some(&bm));
		let unspent_in_segment = mask & 0x0f;
		if r.is_ok() {
			check!(unspent_in_segment & !have == 0, "root() succeeds only if every leaf the bitmap marks unspent is carried by the segment");
		}
		if have == 0x0f {
			check!(r.is_ok(), "a segment carrying all its leaves always has a root");
		}
		cover!(r.is_ok(), "some bitmap lets this segment have a root");
		cover!(r.is_err(), "some bitmap makes this segment fail");
		core::mem::forget(r);
		core::mem::forget(seg);
		core::mem::forget(bm);
	}
}

pub const HARNESSES: &[(&str, fn())] = &[
	("c16::segment_prunable_uncompacted_complete", segment_prunable_uncompacted_complete),
	("c16::segment_complete", segment_complete),
	("c16::segment_sound", segment_sound),
	("c16::prunable_segment_root_needs_unspent_leaves", prunable_segment_root_needs_unspent_leaves),
	("c16::pruned_segment_parent_covers_only_spent_leaves", pruned_segment_parent_covers_only_spent_leaves),
	("c16::segment_identifier_arithmetic", segment_identifier_arithmetic),
];
