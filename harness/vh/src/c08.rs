//! C08 — prune-list and leaf-set arithmetic against the definition, over a correct bitmap (E6).
//!
//! Universe: positions 0..=62 (the perfect tree of 32 leaves); a pruned set is a u64 mask.
//! Definitions (independent of pmmr.rs: the tables below are built from the append rule):
//!   covered(S)   = closure of the union of the given subtrees under "both children covered => parent covered"
//!   roots(S)     = covered positions whose parent is not covered (maximal pruned subtrees)
//!   shift(p)     = sum over roots r <= p of (|subtree(r)| - 1)
//!   leaf_shift(p)= sum over roots r <= p of (leaves under r, but 0 for a lone leaf)
base_uses!();
use crate::{env, nd};
use croaring::Bitmap;
use grin_store::leaf_set::LeafSet;
use grin_store::prune_list::PruneList;


const fn tables() -> ([u8; NPOS], [u8; NPOS]) {
	// (height, leftmost position of the subtree) by the append rule
	let mut h = [0u8; NPOS];
	let mut l = [0u8; NPOS];
	let mut pos = 0usize;
	let mut n = 0u32;
	while n < NLEAVES {
		h[pos] = 0;
		l[pos] = pos as u8;
		pos += 1;
		let mut k = 0;
		let mut sub = 1usize;
		while k < (n + 1).trailing_zeros() {
			let right = pos - 1;
			let left = right - sub;
			h[pos] = h[right] + 1;
			l[pos] = l[left];
			sub = 2 * sub + 1;
			pos += 1;
			k += 1;
		}
		n += 1;
	}
	(h, l)
}
pub const HT: [u8; NPOS] = tables().0;
pub const LM: [u8; NPOS] = tables().1;

fn ones_upto(n: u64) -> u64 {
	// bits 0..n
	if n >= 64 {
		u64::MAX
	} else {
		(1u64 << n) - 1
	}
}
/// mask of the positions in the subtree rooted at `p` (p < 63)
pub fn subtree_mask(p: u64) -> u64 {
	let l = LM[p as usize] as u64;
	ones_upto(p + 1) & !ones_upto(l)
}

/// closure: a parent whose two children are covered is covered (children precede parents)
pub fn closure(mut c: u64) -> u64 {
	let mut p = 0usize;
	while p < NPOS {
		let h = HT[p];
		if h > 0 {
			let right = p - 1;
			let left = p - (1usize << h);
			if c >> right & 1 == 1 && c >> left & 1 == 1 {
				c |= 1u64 << p;
			}
		}
		p += 1;
	}
	c
}
/// every position under a covered position is covered (downward closure)
pub fn down(mut c: u64) -> u64 {
	let mut p = NPOS;
	while p > 0 {
		p -= 1;
		if c >> p & 1 == 1 {
			c |= subtree_mask(p as u64);
		}
	}
	c
}
/// maximal covered positions
pub fn roots_of(c: u64) -> u64 {
	let mut r = 0u64;
	let mut p = 0usize;
	while p < NPOS {
		if c >> p & 1 == 1 {
			// parent of p: the next position whose subtree contains p
			let mut q = p + 1;
			let mut parent_cov = false;
			// the parent is either p+1 (p is a right child) or p + 2^(h+1) (left child)
			let h = HT[p] as usize;
			if q < NPOS && HT[q] as usize == h + 1 {
				parent_cov = c >> q & 1 == 1;
			} else {
				q = p + (2usize << h);
				if q < NPOS {
					parent_cov = c >> q & 1 == 1;
				}
			}
			if !parent_cov {
				r |= 1u64 << p;
			}
		}
		p += 1;
	}
	r
}
pub fn ref_shift(roots: u64, pos: u64) -> u64 {
	let mut s = 0u64;
	let mut p = 0usize;
	while p < NPOS {
		if roots >> p & 1 == 1 && p as u64 <= pos {
			s = s.wrapping_add(2 * ((1u64 << HT[p]) - 1));
		}
		p += 1;
	}
	s
}
pub fn ref_leaf_shift(roots: u64, pos: u64) -> u64 {
	let mut s = 0u64;
	let mut p = 0usize;
	while p < NPOS {
		if roots >> p & 1 == 1 && p as u64 <= pos && HT[p] > 0 {
			s = s.wrapping_add(1u64 << HT[p]);
		}
		p += 1;
	}
	s
}

pub const NPOS: usize = parse_env(option_env!("VH_LIM"), 63) as usize;
const NLEAVES: u32 = (NPOS as u32 + 1) / 2;
const fn parse_env(s: Option<&str>, default: u64) -> u64 {
	match s {
		Some(s) => {
			let b = s.as_bytes();
			let mut v = 0u64;
			let mut i = 0;
			while i < b.len() {
				v = v * 10 + (b[i] - b'0') as u64;
				i += 1;
			}
			v
		}
		None => default,
	}
}
/// number of positions handed to the prune list in this query
const K: usize = parse_env(option_env!("VH_K"), 2) as usize;
/// positions are below this limit (the universe: a perfect tree of 63 or 31 positions)
const LIM: u64 = NPOS as u64;

/// K ascending positions with pairwise disjoint subtrees; returns them with the covered mask
fn any_disjoint_positions() -> ([u64; K], u64) {
	let mut ps = [0u64; K];
	let mut cov = 0u64;
	let mut i = 0;
	while i < K {
		let p: u8 = nd::any();
		nd::assume((p as u64) < LIM);
		if i > 0 {
			nd::assume(p as u64 > ps[i - 1]);
		}
		let m = subtree_mask(p as u64);
		nd::assume(m & cov == 0);
		cov |= m;
		ps[i] = p as u64;
		i += 1;
	}
	(ps, cov)
}

fn bitmap_of(ps: &[u64; K]) -> Bitmap {
	let mut bm = Bitmap::new();
	let mut i = 0;
	while i < K {
		bm.add(1 + ps[i] as u32);
		i += 1;
	}
	bm
}

/// An arbitrary *valid* prune-list state with K entries, assembled directly (hook
/// `PruneList::verif_from_parts`): K maximal pruned subtrees (pairwise disjoint, no complete
/// sibling pair) and the two caches holding the defining prefix sums. This is the representation
/// invariant; `prune_list_append_step` shows one append re-establishes it, `prune_list_new_*`
/// that `new` starts from it, so every reachable prune list is such a state.
#[cfg(any(kani, grin_verif))]
fn any_valid_state() -> (PruneList, u64) {
	let (ps, cov) = any_disjoint_positions();
	nd::assume(closure(cov) == cov);
	let mut sc: Vec<u64> = Vec::with_capacity(8);
	let mut lc: Vec<u64> = Vec::with_capacity(8);
	let mut s = 0u64;
	let mut l = 0u64;
	let mut i = 0;
	while i < K {
		let h = HT[ps[i] as usize];
		s += 2 * ((1u64 << h) - 1);
		if h > 0 {
			l += 1u64 << h;
		}
		sc.push(s);
		lc.push(l);
		i += 1;
	}
	(PruneList::verif_from_parts(bitmap_of(&ps), sc, lc), cov)
}
#[cfg(not(any(kani, grin_verif)))]
fn any_valid_state() -> (PruneList, u64) {
	panic!("native replay of the C08 harnesses needs RUSTFLAGS=--cfg grin_verif")
}

/// every observable of the prune list against the definition, for the covered set `c`
fn check_prune_list(pl: &PruneList, c: u64, probe: u64) {
	let roots = roots_of(c);
	let nroots = roots.count_ones() as u64;
	check!(pl.len() == nroots, "number of entries = number of maximal pruned subtrees");
	check!(pl.is_empty() == (nroots == 0), "is_empty");
	check!(pl.shift_cache().len() as u64 == nroots, "one shift-cache entry per pruned root");
	check!(pl.leaf_shift_cache().len() as u64 == nroots, "one leaf-shift-cache entry per pruned root");
	check!(pl.is_pruned_root(probe) == (roots >> probe & 1 == 1), "is_pruned_root <=> maximal pruned subtree root");
	check!(pl.is_pruned(probe) == (c >> probe & 1 == 1), "is_pruned <=> every leaf beneath is pruned");
	check!(pl.get_shift(probe) == ref_shift(roots, probe), "get_shift = nodes removed at or before pos");
	check!(pl.get_leaf_shift(probe) == ref_leaf_shift(roots, probe), "get_leaf_shift = leaves removed at or before pos");
	check!(pl.get_total_shift() == ref_shift(roots, LIM - 1), "total shift");
	check!(pl.get_total_leaf_shift() == ref_leaf_shift(roots, LIM - 1), "total leaf shift");
	cover!(pl.is_pruned(probe) && !pl.is_pruned_root(probe), "probe inside a pruned subtree");
	cover!(!pl.is_pruned(probe) && pl.get_shift(probe) > 0, "unpruned probe to the right of a pruned subtree");
}

/// the caches themselves (not only what the getters read out of them)
fn check_caches(pl: &PruneList, c: u64) {
	let roots = roots_of(c);
	let sc = pl.shift_cache();
	let lc = pl.leaf_shift_cache();
	let mut p = 0usize;
	let mut k = 0usize;
	while p < NPOS {
		if roots >> p & 1 == 1 {
			if k < sc.len() && k < lc.len() {
				check!(sc[k] == ref_shift(roots, p as u64), "shift cache entry k = shift up to the k-th root");
				check!(lc[k] == ref_leaf_shift(roots, p as u64), "leaf shift cache entry k = leaf shift up to the k-th root");
			}
			k += 1;
		}
		p += 1;
	}
}

fn any_probe() -> u64 {
	let probe: u8 = nd::any();
	nd::assume((probe as u64) < LIM);
	probe as u64
}

proof! {
	[bitmap, alloc] fn prune_list_queries() {
		// every query, from an arbitrary valid state
		env::alloc_block(64);
		env::bitmap_select_max(8);
		let (pl, c) = any_valid_state();
		check_prune_list(&pl, c, any_probe());
		core::mem::forget(pl);
	}
}

proof! {
	[bitmap, alloc] fn prune_list_append_step() {
		// one append (roll-up of siblings, clean-up of everything beneath) from an arbitrary valid
		// state: the result is again a valid state, for the enlarged pruned set
		env::alloc_block(64);
		env::bitmap_select_max(8);
		let (mut pl, c0) = any_valid_state();
		let q: u8 = nd::any();
		nd::assume((q as u64) < LIM);
		// the function's own precondition ("append only"): strictly right of every pruned root
		let r0 = roots_of(c0);
		nd::assume(r0 == 0 || q as u64 > 63 - r0.leading_zeros() as u64);
		pl.append(q as u64);
		let c1 = closure(c0 | subtree_mask(q as u64));
		check_prune_list(&pl, c1, any_probe());
		check_caches(&pl, c1);
		cover!(subtree_mask(q as u64) & c0 != 0, "appended subtree swallows existing entries");
		cover!(roots_of(c1) >> q & 1 == 0, "appended position rolled up into an ancestor");
		core::mem::forget(pl);
	}
}

proof! {
	[bitmap, alloc] fn prune_list_init_caches() {
		// init_caches (run when a prune list is opened from its file) rebuilds exactly the caches
		env::alloc_block(64);
		env::bitmap_select_max(8);
		let (mut pl, c) = any_valid_state();
		pl.init_caches();
		check_prune_list(&pl, c, any_probe());
		check_caches(&pl, c);
		core::mem::forget(pl);
	}
}

proof! {
	[bitmap, alloc] fn prune_list_new_matches_definition() {
		// PruneList::new over K pruned subtrees / leaves in ascending order (what check_compact
		// hands in: old roots plus newly removed leaves; siblings allowed, so roll-ups happen)
		env::alloc_block(64);
		env::bitmap_select_max(8);
		let (ps, cov) = any_disjoint_positions();
		let pl = PruneList::new(None, bitmap_of(&ps));
		let c = closure(cov);
		check_prune_list(&pl, c, any_probe());
		check_caches(&pl, c);
		if K > 1 {
			cover!(roots_of(c).count_ones() < K as u32, "siblings rolled up into their parent");
		}
		core::mem::forget(pl);
	}
}

proof! {
	[bitmap, alloc] fn prune_list_iterators() {
		// unpruned_iter / unpruned_leaf_iter / iter / pruned_bintree_range_iter against the definition
		env::alloc_block(64);
		env::bitmap_select_max(8);
		let (pl, c) = any_valid_state();
		let roots = roots_of(c);
		let cutoff: u8 = nd::any();
		nd::assume(cutoff as u64 <= LIM);
		// 1-based positions, ascending, exactly the unpruned ones up to the cutoff
		let mut seen = 0u64;
		let mut last = 0u64;
		let mut n = 0u64;
		for x in pl.unpruned_iter(cutoff as u64) {
			check!(x >= 1 && x <= cutoff as u64, "unpruned_iter stays within 1..=cutoff");
			check!(x > last, "unpruned_iter ascends");
			last = x;
			seen |= 1u64 << (x - 1);
			n += 1;
			if n > LIM { break; }
		}
		check!(seen == !c & ones_upto(cutoff as u64), "unpruned_iter yields exactly the positions that are not pruned");
		let mut seen_l = 0u64;
		let mut n = 0u64;
		for x in pl.unpruned_leaf_iter(cutoff as u64) {
			seen_l |= 1u64 << (x - 1);
			n += 1;
			if n > LIM { break; }
		}
		let mut leaves = 0u64;
		let mut p = 0;
		while p < NPOS {
			if HT[p] == 0 { leaves |= 1u64 << p; }
			p += 1;
		}
		check!(seen_l == !c & leaves & ones_upto(cutoff as u64), "unpruned_leaf_iter yields exactly the unpruned leaves");
		let mut rs = 0u64;
		for x in pl.iter() {
			rs |= 1u64 << (x - 1);
		}
		check!(rs == roots, "iter yields the pruned roots (1-based)");
		let mut cm = 0u64;
		for r in pl.pruned_bintree_range_iter() {
			cm |= ones_upto(r.end - 1) & !ones_upto(r.start - 1);
		}
		check!(cm == c, "pruned ranges cover exactly the pruned positions");
		core::mem::forget(pl);
	}
}

// ---------------------------------------------------------------- leaf set

fn bitmap_from_bits(v: u64) -> Bitmap {
	let mut b = Bitmap::new();
	let mut i = 0u32;
	while i < 64 {
		if v >> i & 1 == 1 {
			b.add(i);
		}
		i += 1;
	}
	b
}
fn bits_of(b: &Bitmap) -> u64 {
	let mut v = 0u64;
	let mut i = 0u32;
	while i < 64 {
		if b.contains(i) {
			v |= 1u64 << i;
		}
		i += 1;
	}
	v
}
/// any set of 1-based positions 1..=LIM
fn any_pos1_set() -> u64 {
	let v: u64 = nd::any();
	nd::assume(v & 1 == 0 && v & !ones_upto(LIM + 1) == 0);
	v
}
fn leaves1() -> u64 {
	// 1-based leaf positions
	let mut leaves = 0u64;
	let mut p = 0;
	while p < NPOS {
		if HT[p] == 0 {
			leaves |= 1u64 << (p + 1);
		}
		p += 1;
	}
	leaves
}

#[cfg(any(kani, grin_verif))]
proof! {
	[bitmap, alloc] fn leaf_set_rewind() {
		// LeafSet::rewind(cutoff, rm) = (set restricted to positions <= cutoff) united with rm;
		// add / remove / includes / len / is_empty / n_unpruned_leaves_to_index are set operations
		env::alloc_block(64);
		let set0 = any_pos1_set();
		let rm = any_pos1_set();
		let cutoff: u8 = nd::any();
		nd::assume(cutoff as u64 <= LIM);
		let mut ls = LeafSet::verif_from_bitmap(bitmap_from_bits(set0));
		let rmb = bitmap_from_bits(rm);
		ls.rewind(cutoff as u64, &rmb);
		let expect = (set0 & ones_upto(cutoff as u64 + 1)) | rm;
		let mut got = 0u64;
		let mut p = 0u64;
		while p < LIM {
			if ls.includes(p) {
				got |= 1u64 << (p + 1);
			}
			p += 1;
		}
		check!(got == expect, "rewind keeps exactly the positions up to the cutoff and adds back the removed ones");
		check!(ls.len() as u32 == expect.count_ones(), "len");
		check!(ls.is_empty() == (expect == 0), "is_empty");
		let idx: u8 = nd::any();
		nd::assume(idx as u64 <= LIM + 1);
		check!(ls.n_unpruned_leaves_to_index(idx as u64) == (expect & ones_upto(idx as u64)).count_ones() as u64, "n_unpruned_leaves_to_index counts the set below the index");
		let q: u8 = nd::any();
		nd::assume((q as u64) < LIM);
		ls.add(q as u64);
		check!(ls.includes(q as u64), "add");
		ls.remove(q as u64);
		check!(!ls.includes(q as u64), "remove");
		cover!(set0 >> (cutoff as u64 + 1) != 0 && cutoff > 0, "positions above the cutoff dropped");
		core::mem::forget(ls);
	}
}

#[cfg(any(kani, grin_verif))]
proof! {
	[bitmap, alloc, bulk] fn leaf_set_removed_pre_cutoff() {
		// removed_pre_cutoff = leaf positions <= cutoff that are neither unspent at the cutoff
		// (set restricted to <= cutoff, plus the positions removed since) nor already pruned:
		// exactly what a compaction at that cutoff may physically remove
		env::alloc_block(64);
		env::bitmap_select_max(8);
		let (pl, c) = any_valid_state();
		let set0 = any_pos1_set();
		let rm = any_pos1_set();
		let cutoff: u8 = nd::any();
		nd::assume(cutoff as u64 <= LIM);
		let ls = LeafSet::verif_from_bitmap(bitmap_from_bits(set0));
		let rmb = bitmap_from_bits(rm);
		let out = ls.removed_pre_cutoff(cutoff as u64, &rmb, &pl);
		let unspent = (set0 & ones_upto(cutoff as u64 + 1)) | rm;
		let expect = leaves1() & ones_upto(cutoff as u64 + 1) & !unspent & !(c << 1);
		check!(bits_of(&out) == expect, "removed_pre_cutoff = spent, unpruned leaves up to the cutoff");
		cover!(expect != 0, "something to remove");
		core::mem::forget(ls);
		core::mem::forget(pl);
	}
}

#[cfg(any(kani, grin_verif))]
proof! {
	[bitmap, alloc, bulk] fn removed_excl_roots_keeps_roots() {
		// store::pmmr::removed_excl_roots: of the positions to remove, the roots (those whose
		// parent is not removed) are kept so that their hashes stay available for Merkle proofs
		env::alloc_block(64);
		let rem = any_pos1_set();
		let out = grin_store::pmmr::verif_removed_excl_roots(&bitmap_from_bits(rem));
		let mut expect = 0u64;
		let mut p = 0usize;
		while p < NPOS {
			if rem >> (p + 1) & 1 == 1 {
				// parent of p
				let h = HT[p] as usize;
				let q = if p + 1 < NPOS && HT[p + 1] as usize == h + 1 { p + 1 } else { p + (2usize << h) };
				if q < NPOS && rem >> (q + 1) & 1 == 1 {
					expect |= 1u64 << (p + 1);
				}
			}
			p += 1;
		}
		// parents outside the universe: only when p is on the right spine, which LIM excludes below
		check!(bits_of(&out) == expect, "removed_excl_roots = removed positions whose parent is removed too");
		cover!(expect != 0 && expect != rem, "some kept, some removed");
	}
}

#[cfg(any(kani, grin_verif))]
proof! {
	[bitmap, alloc, bulk] fn compaction_plan_matches_definition() {
		// PMMRBackend::pos_to_rm (the planning step of check_compact) on a backend with detached
		// files: from ANY valid prune-list state and any consistent leaf set / rewind set / cutoff,
		//   leaves removed      = spent, unpruned leaves up to the cutoff
		//   positions to remove = positions that are pruned afterwards, are not a root of a pruned
		//                         subtree afterwards (root hashes stay for Merkle proofs) and were
		//                         not already removed by an earlier compaction
		// where "pruned afterwards" is the closure of the old pruned set plus the removed leaves.
		env::alloc_block(64);
		env::bitmap_select_max(8);
		let (pl, c) = any_valid_state();
		let set0 = any_pos1_set();
		let rm = any_pos1_set();
		// usage protocol: the leaf set and the rewind set hold leaf positions that are not pruned
		nd::assume(set0 & !leaves1() == 0 && rm & !leaves1() == 0);
		nd::assume((set0 | rm) & (c << 1) == 0);
		let cutoff: u8 = nd::any();
		nd::assume(cutoff as u64 <= LIM);
		let ls = LeafSet::verif_from_bitmap(bitmap_from_bits(set0));
		let rmb = bitmap_from_bits(rm);
		let be: grin_store::pmmr::PMMRBackend<crate::c07b::Elem> = grin_store::pmmr::PMMRBackend::verif_detached(true, ls, pl);
		let (leaves_removed, pos_to_rm) = be.verif_pos_to_rm(cutoff as u64, &rmb);
		let unspent = (set0 & ones_upto(cutoff as u64 + 1)) | rm;
		let lr = leaves1() & ones_upto(cutoff as u64 + 1) & !unspent & !(c << 1);
		check!(bits_of(&leaves_removed) == lr, "leaves removed = spent, unpruned leaves up to the cutoff");
		let c1 = closure(c | (lr >> 1));
		let already = c & !roots_of(c);
		let expect = c1 & !roots_of(c1) & !already;
		check!(bits_of(&pos_to_rm) == expect << 1, "positions to remove = newly interior positions of the pruned subtrees; their roots stay");
		cover!(expect != 0 && roots_of(c) & expect != 0, "a previously pruned root becomes interior and is removed now");
		cover!(lr != 0 && expect == 0, "a lone removed leaf stays as its own root");
		core::mem::forget(be);
	}
}

pub const HARNESSES: &[(&str, fn())] = &[
	#[cfg(any(kani, grin_verif))]
	("c08::compaction_plan_matches_definition", compaction_plan_matches_definition),
	#[cfg(any(kani, grin_verif))]
	("c08::leaf_set_rewind", leaf_set_rewind),
	#[cfg(any(kani, grin_verif))]
	("c08::leaf_set_removed_pre_cutoff", leaf_set_removed_pre_cutoff),
	#[cfg(any(kani, grin_verif))]
	("c08::removed_excl_roots_keeps_roots", removed_excl_roots_keeps_roots),
	("c08::prune_list_queries", prune_list_queries),
	("c08::prune_list_append_step", prune_list_append_step),
	("c08::prune_list_init_caches", prune_list_init_caches),
	("c08::prune_list_new_matches_definition", prune_list_new_matches_definition),
	("c08::prune_list_iterators", prune_list_iterators),
];
