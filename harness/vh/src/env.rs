//! Environment models (DESIGN.md §3). Everything in `stubs` replaces a real function only
//! under Kani, through `#[kani::stub]`; the native replay build runs the real functions.

use grin_core::global::{self, ChainTypes};

/// Configuration inputs (E2). Under Kani these are plain statics read by the stubbed getters;
/// natively they are forwarded to grin's own thread-local setters.
pub fn set_chain_type(ct: ChainTypes) {
	#[cfg(kani)]
	unsafe {
		stubs::CHAIN_TYPE = ct;
	}
	#[cfg(not(kani))]
	global::set_local_chain_type(ct);
}
pub fn set_nrd_enabled(b: bool) {
	#[cfg(kani)]
	unsafe {
		stubs::NRD_ENABLED = b;
	}
	#[cfg(not(kani))]
	global::set_local_nrd_enabled(b);
}
pub fn set_accept_fee_base(v: u64) {
	#[cfg(kani)]
	unsafe {
		stubs::ACCEPT_FEE_BASE = v;
	}
	#[cfg(not(kani))]
	global::set_local_accept_fee_base(v);
}
pub fn set_future_time_limit(v: u64) {
	#[cfg(kani)]
	unsafe {
		stubs::FUTURE_TIME_LIMIT = v;
	}
	#[cfg(not(kani))]
	global::set_local_future_time_limit(v);
}

/// Largest single allocation request since `alloc_reset()` (E12 ghost under Kani, a counting
/// global allocator natively).
pub fn alloc_max() -> usize {
	#[cfg(kani)]
	unsafe {
		return stubs::ALLOC_MAX;
	}
	#[cfg(not(kani))]
	native_alloc::MAX.load(std::sync::atomic::Ordering::Relaxed)
}
pub fn alloc_limit(limit: usize) {
	#[cfg(kani)]
	unsafe {
		stubs::ALLOC_LIMIT = limit;
	}
	let _ = limit;
}
/// size of the concrete blocks the allocation ghost hands out (set before the code under test)
pub fn alloc_block(n: usize) {
	#[cfg(kani)]
	unsafe {
		stubs::ALLOC_BLOCK = n;
	}
	let _ = n;
}
/// bound of the bitmap model's select() loop (asserted inside the model)
pub fn bitmap_select_max(n: u32) {
	#[cfg(kani)]
	unsafe {
		stubs::SELECT_MAX = n;
	}
	let _ = n;
}
pub fn alloc_reset() {
	#[cfg(kani)]
	unsafe {
		stubs::ALLOC_MAX = 0;
	}
	#[cfg(not(kani))]
	native_alloc::MAX.store(0, std::sync::atomic::Ordering::Relaxed);
}

#[cfg(not(kani))]
pub mod native_alloc {
	use std::alloc::{GlobalAlloc, Layout, System};
	use std::sync::atomic::{AtomicUsize, Ordering};
	pub static MAX: AtomicUsize = AtomicUsize::new(0);
	pub struct Counting;
	unsafe impl GlobalAlloc for Counting {
		unsafe fn alloc(&self, l: Layout) -> *mut u8 {
			MAX.fetch_max(l.size(), Ordering::Relaxed);
			System.alloc(l)
		}
		unsafe fn alloc_zeroed(&self, l: Layout) -> *mut u8 {
			MAX.fetch_max(l.size(), Ordering::Relaxed);
			System.alloc_zeroed(l)
		}
		unsafe fn realloc(&self, p: *mut u8, l: Layout, n: usize) -> *mut u8 {
			MAX.fetch_max(n, Ordering::Relaxed);
			System.realloc(p, l, n)
		}
		unsafe fn dealloc(&self, p: *mut u8, l: Layout) {
			System.dealloc(p, l)
		}
	}
	#[global_allocator]
	static A: Counting = Counting;
}

/// number of hashes computed so far (ghost under Kani; natively not observable: 0)
pub fn hash_calls() -> usize {
	#[cfg(kani)]
	unsafe {
		return stubs::COMPRESS_CALLS;
	}
	#[cfg(not(kani))]
	0
}

/// One of the four chain types, chosen by a symbolic byte.
pub fn any_chain_type() -> ChainTypes {
	let k: u8 = crate::nd::any();
	crate::nd::assume(k < 4);
	chain_type_of(k)
}
pub fn chain_type_of(k: u8) -> ChainTypes {
	match k {
		0 => ChainTypes::AutomatedTesting,
		1 => ChainTypes::UserTesting,
		2 => ChainTypes::Testnet,
		_ => ChainTypes::Mainnet,
	}
}

#[cfg(kani)]
pub mod stubs {
	use grin_core::global::ChainTypes;
	use grin_core::ser;
	use std::io;

	pub static mut CHAIN_TYPE: ChainTypes = ChainTypes::AutomatedTesting;
	pub static mut NRD_ENABLED: bool = false;
	pub static mut ACCEPT_FEE_BASE: u64 = 500_000;
	pub static mut FUTURE_TIME_LIMIT: u64 = 5 * 60;

	// ---- E1: formatting produces no text (no clause observes message text)
	pub fn fmt_format(_args: core::fmt::Arguments<'_>) -> String {
		String::new()
	}

	// ---- E2: node configuration is an explicit input
	pub fn get_chain_type() -> ChainTypes {
		unsafe { CHAIN_TYPE }
	}
	pub fn is_nrd_enabled() -> bool {
		unsafe { NRD_ENABLED }
	}
	pub fn get_accept_fee_base() -> u64 {
		unsafe { ACCEPT_FEE_BASE }
	}
	pub fn get_future_time_limit() -> u64 {
		unsafe { FUTURE_TIME_LIMIT }
	}

	// ---- E11: uncontended locks are the identity (single-threaded symbolic execution)
	pub fn raw_mutex_lock(_m: &parking_lot::RawMutex) {}
	pub fn raw_mutex_unlock(_m: &parking_lot::RawMutex) {}
	pub fn raw_rw_lock_shared(_m: &parking_lot::RawRwLock) {}
	pub fn raw_rw_unlock_shared(_m: &parking_lot::RawRwLock) {}
	pub fn raw_rw_lock_exclusive(_m: &parking_lot::RawRwLock) {}
	pub fn raw_rw_unlock_exclusive(_m: &parking_lot::RawRwLock) {}

	// ---- E13: same error value, but the io::Error is forgotten instead of dropped
	// (its drop glue is recursive through Box<dyn Error>)
	pub fn map_io_err(err: io::Error) -> ser::Error {
		let k = err.kind();
		core::mem::forget(err);
		ser::Error::IOErr(String::new(), k)
	}
	pub fn ser_error_from_io(e: io::Error) -> ser::Error {
		let k = e.kind();
		core::mem::forget(e);
		ser::Error::IOErr(String::new(), k)
	}

	/// E15b: the stable sort entry point (driftsort) replaced by the same (stable) insertion sort
	pub fn stable_sort<T, F: FnMut(&T, &T) -> bool>(v: &mut [T], mut is_less: F) {
		insertion_sort(v, &mut is_less)
	}

	// ---- E15: std's unstable sort (ipnsort / sorting networks over raw pointers) replaced by
	// an insertion sort with the same signature and comparator
	pub fn insertion_sort<T, F: FnMut(&T, &T) -> bool>(v: &mut [T], is_less: &mut F) {
		let n = v.len();
		let mut i = 1;
		while i < n {
			let mut j = i;
			while j > 0 && is_less(&v[j], &v[j - 1]) {
				v.swap(j, j - 1);
				j -= 1;
			}
			i += 1;
		}
	}

	// ---- E9: the clock is an input; nothing the harnesses assert depends on it
	pub fn system_time_now() -> std::time::SystemTime {
		std::time::UNIX_EPOCH
	}
	pub fn instant_now() -> std::time::Instant {
		// Instant is { secs: i64, nanos: u32 } on this platform; the all-zero value is valid
		unsafe { core::mem::zeroed() }
	}

	/// the sender's rate-limit pause has no data effect
	pub fn thread_sleep(_d: std::time::Duration) {}

	// ---- E14: zeroize's compiler barrier is inline asm with no data effect
	pub fn optimization_barrier<T: ?Sized>(_v: &T) {}

	// ---- E3: fixed hash-map keys (iteration order is never observed)
	pub fn random_state_new() -> std::collections::hash_map::RandomState {
		// RandomState is two u64 keys
		unsafe { core::mem::transmute::<(u64, u64), std::collections::hash_map::RandomState>((1, 2)) }
	}

	// ---- E4a: cheap deterministic mixer in place of blake2b's compression function
	// (`Blake2b::compress`, the only arithmetic of the hash; `update` merely buffers <=128 B).
	// The state struct's fields are private, the stub reaches them through a mirror struct of
	// the same field types in the same order (size asserted at compile time).
	#[repr(C)]
	pub struct B2Mirror {
		pub m: [u64; 16],
		pub h: [[u64; 4]; 2],
		pub t: u64,
		pub nn: usize,
	}
	const _: () = assert!(core::mem::size_of::<B2Mirror>() == core::mem::size_of::<b2::blake2b::Blake2b>());
	use ::blake2 as b2;

	/// ghost: number of compression-function calls (== number of single-block hashes computed)
	pub static mut COMPRESS_CALLS: usize = 0;
	/// same mixer, counting its calls (kept separate: adding the counter to the plain mixer made
	/// an unrelated harness report spurious __rust_dealloc failures under CBMC 6.11)
	pub fn blake2b_compress_mix_counting(st: &mut b2::blake2b::Blake2b, f0: u64, f1: u64) {
		unsafe {
			COMPRESS_CALLS = COMPRESS_CALLS.wrapping_add(1);
		}
		blake2b_compress_mix(st, f0, f1)
	}
	pub fn blake2b_compress_mix(st: &mut b2::blake2b::Blake2b, f0: u64, f1: u64) {
		let s: &mut B2Mirror = unsafe { &mut *(st as *mut b2::blake2b::Blake2b as *mut B2Mirror) };
		let m = &s.m;
		let mut acc = s.t ^ f0 ^ f1.rotate_left(1);
		macro_rules! fold { ($($i:expr),*) => { $( acc = acc.rotate_left(7) ^ m[$i]; )* } }
		fold!(0, 1, 2, 3, 4, 5, 6, 7, 8, 9, 10, 11, 12, 13, 14, 15);
		macro_rules! mixh { ($($a:expr, $b:expr, $k:expr);*) => { $(
			s.h[$a][$b] = s.h[$a][$b].rotate_left($k + 1) ^ acc.rotate_left(5 * $k + 3) ^ m[$k] ^ m[$k + 8].rotate_left(13);
		)* } }
		mixh!(0,0,0; 0,1,1; 0,2,2; 0,3,3; 1,0,4; 1,1,5; 1,2,6; 1,3,7);
	}

	// ---- E4b: ideal hash (Ackermann form). Every call of the compression function on a
	// single-block message returns a *fresh symbolic* digest, constrained against every earlier
	// call: equal messages <=> equal digests. That is exactly "some collision-free function":
	// functional consistency plus injectivity, with no table search and no symbolic indexing.
	// Collision freedom is thereby an explicit assumption of every harness that uses it
	// ("tampering is detected" is true only modulo collision resistance). All of grin's MMR
	// hashes are single-block (<= 128 bytes), asserted below.
	pub const IDEAL_N: usize = 64;
	pub static mut IDEAL_KEYS: [[u64; 17]; IDEAL_N] = [[0; 17]; IDEAL_N];
	pub static mut IDEAL_OUT: [[u64; 4]; IDEAL_N] = [[0; 4]; IDEAL_N];
	pub static mut IDEAL_LEN: usize = 0;
	fn key_eq(a: &[u64; 17], b: &[u64; 17]) -> bool {
		let mut d = 0u64;
		macro_rules! acc { ($($i:expr),*) => { $( d |= a[$i] ^ b[$i]; )* } }
		acc!(0, 1, 2, 3, 4, 5, 6, 7, 8, 9, 10, 11, 12, 13, 14, 15, 16);
		d == 0
	}
	pub fn blake2b_compress_ideal(st: &mut b2::blake2b::Blake2b, f0: u64, _f1: u64) {
		let s: &mut B2Mirror = unsafe { &mut *(st as *mut b2::blake2b::Blake2b as *mut B2Mirror) };
		kani::assert(s.t <= 128 && f0 == !0, "ideal hash model: single-block messages only");
		let mut key = [0u64; 17];
		key[..16].copy_from_slice(&s.m);
		key[16] = s.t;
		let out: [u64; 4] = [kani::any(), kani::any(), kani::any(), kani::any()];
		unsafe {
			let n = IDEAL_LEN;
			kani::assert(n < IDEAL_N, "ideal hash: call budget of this harness");
			kani::assume(n < IDEAL_N);
			let mut j = 0;
			while j < IDEAL_N {
				if j < n {
					let same_in = key_eq(&IDEAL_KEYS[j], &key);
					let o = &IDEAL_OUT[j];
					let same_out = (o[0] ^ out[0]) | (o[1] ^ out[1]) | (o[2] ^ out[2]) | (o[3] ^ out[3]) == 0;
					kani::assume(same_in == same_out);
				}
				j += 1;
			}
			IDEAL_KEYS[n] = key;
			IDEAL_OUT[n] = out;
			IDEAL_LEN = n + 1;
		}
		s.h[0] = out;
		s.h[1] = [0; 4];
	}

	// ---- E6 (lite): croaring::Bitmap as a 64-value bitset kept inside the (otherwise unused)
	// roaring_bitmap_t value: bits 0..31 in `size`, bits 32..63 in `allocation_size`.
	// Only the methods the harnesses reach are modelled; values >= 64 are outside the universe.
	// `Bitmap` is #[repr(transparent)] over roaring_bitmap_t { high_low_container: roaring_array_t { size: i32, allocation_size: i32, .. } }.
	#[repr(C)]
	pub struct BmMirror {
		pub lo: u32,
		pub hi: u32,
		pub containers: usize,
		pub keys: usize,
		pub typecodes: usize,
		pub flags: u8,
	}
	const _: () = assert!(core::mem::size_of::<BmMirror>() == core::mem::size_of::<croaring::Bitmap>());
	fn bm(b: &croaring::Bitmap) -> u64 {
		let m: &BmMirror = unsafe { &*(b as *const croaring::Bitmap as *const BmMirror) };
		m.lo as u64 | (m.hi as u64) << 32
	}
	fn bm_set(b: &mut croaring::Bitmap, v: u64) {
		let m: &mut BmMirror = unsafe { &mut *(b as *mut croaring::Bitmap as *mut BmMirror) };
		m.lo = v as u32;
		m.hi = (v >> 32) as u32;
	}
	pub fn bitmap_new() -> croaring::Bitmap {
		unsafe { core::mem::transmute::<BmMirror, croaring::Bitmap>(BmMirror { lo: 0, hi: 0, containers: 0, keys: 0, typecodes: 0, flags: 0 }) }
	}
	pub fn bitmap_drop(_b: &mut croaring::Bitmap) {}
	pub fn bitmap_add(b: &mut croaring::Bitmap, e: u32) {
		kani::assume(e < 64);
		let v = bm(b) | 1u64 << e;
		bm_set(b, v);
	}
	pub fn bitmap_remove(b: &mut croaring::Bitmap, e: u32) {
		if e < 64 {
			let v = bm(b) & !(1u64 << e);
			bm_set(b, v);
		}
	}
	pub fn bitmap_contains(b: &croaring::Bitmap, e: u32) -> bool {
		e < 64 && bm(b) >> e & 1 == 1
	}
	pub fn bitmap_cardinality(b: &croaring::Bitmap) -> u64 {
		bm(b).count_ones() as u64
	}
	pub fn bitmap_is_empty(b: &croaring::Bitmap) -> bool {
		bm(b) == 0
	}
	pub fn bitmap_range_cardinality<R: core::ops::RangeBounds<u32>>(b: &croaring::Bitmap, r: R) -> u64 {
		use core::ops::Bound;
		let start = match r.start_bound() { Bound::Included(&s) => s as u64, Bound::Excluded(&s) => s as u64 + 1, Bound::Unbounded => 0 };
		let end = match r.end_bound() { Bound::Included(&e) => e as u64 + 1, Bound::Excluded(&e) => e as u64, Bound::Unbounded => 64 };
		let lo = if start > 64 { 64 } else { start as u32 };
		let hi = if end > 64 { 64 } else { end as u32 };
		if lo >= hi {
			return 0;
		}
		let upto = |n: u32| if n >= 64 { u64::MAX } else { (1u64 << n) - 1 };
		(bm(b) & upto(hi) & !upto(lo)).count_ones() as u64
	}

	// ---- E6 (full): the remaining set operations grin's store / chain code uses. All values live
	// in the 64-value universe; anything outside it is cut off by an assumption (the harnesses
	// keep every position < 63).
	fn upto(n: u64) -> u64 {
		if n >= 64 { u64::MAX } else { (1u64 << n) - 1 }
	}
	fn range_incl<R: core::ops::RangeBounds<u32>>(r: &R) -> (u64, u64) {
		// (first, one-past-last) over u64 so that nothing wraps
		use core::ops::Bound;
		let start = match r.start_bound() { Bound::Included(&s) => s as u64, Bound::Excluded(&s) => s as u64 + 1, Bound::Unbounded => 0 };
		let end = match r.end_bound() { Bound::Included(&e) => e as u64 + 1, Bound::Excluded(&e) => e as u64, Bound::Unbounded => 1u64 << 32 };
		(start, end)
	}
	fn range_mask<R: core::ops::RangeBounds<u32>>(r: &R) -> u64 {
		let (s, e) = range_incl(r);
		if s >= e { 0 } else { upto(e) & !upto(s) }
	}
	pub static mut SELECT_MAX: u32 = 64;
	pub fn bitmap_rank(b: &croaring::Bitmap, x: u32) -> u64 {
		(bm(b) & upto(x as u64 + 1)).count_ones() as u64
	}
	pub fn bitmap_select(b: &croaring::Bitmap, position: u32) -> Option<u32> {
		// the element of rank `position` (0-based): clear the lowest set bit `position` times
		let mut v = bm(b);
		if position as u64 >= v.count_ones() as u64 {
			return None;
		}
		kani::assert(v.count_ones() <= unsafe { SELECT_MAX }, "bitmap model: select() is bounded by the harness' SELECT_MAX elements");
		let mut k = 0u32;
		while k < unsafe { SELECT_MAX } {
			if k < position {
				v &= v.wrapping_sub(1);
			}
			k += 1;
		}
		Some(v.trailing_zeros())
	}
	pub fn bitmap_maximum(b: &croaring::Bitmap) -> Option<u32> {
		let v = bm(b);
		if v == 0 { None } else { Some(63 - v.leading_zeros()) }
	}
	pub fn bitmap_minimum(b: &croaring::Bitmap) -> Option<u32> {
		let v = bm(b);
		if v == 0 { None } else { Some(v.trailing_zeros()) }
	}
	pub fn bitmap_remove_range<R: core::ops::RangeBounds<u32>>(b: &mut croaring::Bitmap, r: R) {
		let v = bm(b) & !range_mask(&r);
		bm_set(b, v);
	}
	pub fn bitmap_add_range<R: core::ops::RangeBounds<u32>>(b: &mut croaring::Bitmap, r: R) {
		let (_, e) = range_incl(&r);
		kani::assume(e <= 64);
		let v = bm(b) | range_mask(&r);
		bm_set(b, v);
	}
	pub fn bitmap_or_inplace(b: &mut croaring::Bitmap, o: &croaring::Bitmap) {
		let v = bm(b) | bm(o);
		bm_set(b, v);
	}
	pub fn bitmap_and(b: &croaring::Bitmap, o: &croaring::Bitmap) -> croaring::Bitmap {
		let mut r = bitmap_new();
		bm_set(&mut r, bm(b) & bm(o));
		r
	}
	pub fn bitmap_andnot(b: &croaring::Bitmap, o: &croaring::Bitmap) -> croaring::Bitmap {
		let mut r = bitmap_new();
		bm_set(&mut r, bm(b) & !bm(o));
		r
	}
	pub fn bitmap_flip<R: core::ops::RangeBounds<u32>>(b: &croaring::Bitmap, r: R) -> croaring::Bitmap {
		let (_, e) = range_incl(&r);
		kani::assume(e <= 64);
		let mut out = bitmap_new();
		bm_set(&mut out, bm(b) ^ range_mask(&r));
		out
	}
	pub fn bitmap_run_optimize(_b: &mut croaring::Bitmap) -> bool {
		false
	}
	pub fn bitmap_clone(b: &croaring::Bitmap) -> croaring::Bitmap {
		let mut r = bitmap_new();
		bm_set(&mut r, bm(b));
		r
	}
	pub fn bitmap_eq(b: &croaring::Bitmap, o: &croaring::Bitmap) -> bool {
		bm(b) == bm(o)
	}
	pub fn bitmap_extend<T: IntoIterator<Item = u32>>(b: &mut croaring::Bitmap, iter: T) {
		for x in iter {
			bitmap_add(b, x);
		}
	}
	/// the C entry point behind `impl Extend<u32> for Bitmap` (and therefore `collect::<Bitmap>()`)
	pub unsafe extern "C" fn ffi_add_bulk(r: *mut croaring_sys::roaring_bitmap_t, _ctx: *mut croaring_sys::roaring_bulk_context_t, val: u32) {
		kani::assume(val < 64);
		let m: &mut BmMirror = &mut *(r as *mut BmMirror);
		let v = (m.lo as u64 | (m.hi as u64) << 32) | 1u64 << val;
		m.lo = v as u32;
		m.hi = (v >> 32) as u32;
	}
	/// harness-side access to the modelled set
	pub fn bitmap_bits(b: &croaring::Bitmap) -> u64 {
		bm(b)
	}
	pub fn bitmap_of_bits(v: u64) -> croaring::Bitmap {
		let mut r = bitmap_new();
		bm_set(&mut r, v);
		r
	}
	// iteration: croaring's BitmapIterator wraps a BitmapCursor over the C iterator struct. The
	// model keeps a snapshot of the not-yet-visited values in the (otherwise unused) `parent`
	// pointer field; Rust's borrow rules already forbid mutating the bitmap while iterating.
	#[repr(C)]
	pub struct CurMirror {
		pub rem: u64, // parent: *const roaring_bitmap_t
		pub container: usize,
		pub typecode: u8,
		pub container_index: i32,
		pub highbits: u32,
		pub container_it: i32,
		pub current_value: u32,
		pub has_value: bool,
	}
	const _: () = assert!(core::mem::size_of::<CurMirror>() == core::mem::size_of::<croaring::bitmap::BitmapCursor<'static>>());
	fn cur_step(c: &mut CurMirror) {
		if c.rem == 0 {
			c.has_value = false;
		} else {
			c.has_value = true;
			c.current_value = c.rem.trailing_zeros();
			c.rem &= c.rem.wrapping_sub(1);
		}
	}
	pub fn cursor_at_first<'a>(b: &'a croaring::Bitmap) -> croaring::bitmap::BitmapCursor<'a> where 'a: 'a {
		let mut c = CurMirror { rem: bm(b), container: 0, typecode: 0, container_index: 0, highbits: 0, container_it: 0, current_value: 0, has_value: false };
		cur_step(&mut c);
		unsafe { core::mem::transmute::<CurMirror, croaring::bitmap::BitmapCursor<'a>>(c) }
	}
	pub fn cursor_move_next<'a>(cur: &mut croaring::bitmap::BitmapCursor<'a>) where 'a: 'a {
		let c: &mut CurMirror = unsafe { &mut *(cur as *mut croaring::bitmap::BitmapCursor<'a> as *mut CurMirror) };
		cur_step(c);
	}

	// ---- E12: allocation ghost. Every request is checked against ALLOC_LIMIT (set by the
	// harness); the request is then served by a block of the *concrete* size ALLOC_BLOCK so that
	// no heap object has a symbolic size (symbolic-size objects are what made 8-byte decoder
	// queries exceed 10 GB). Requests above ALLOC_BLOCK are cut off after the assertion.
	pub static mut ALLOC_MAX: usize = 0;
	pub static mut ALLOC_LIMIT: usize = usize::MAX;
	pub static mut ALLOC_BLOCK: usize = 4096;
	unsafe fn note(size: usize) {
		if size > ALLOC_MAX {
			ALLOC_MAX = size;
		}
		kani::assert(size <= ALLOC_LIMIT, "allocation request within the bound for this input length");
		kani::assume(size <= ALLOC_BLOCK);
	}
	pub unsafe fn alloc_rec(layout: core::alloc::Layout) -> *mut u8 {
		note(layout.size());
		std::alloc::GlobalAlloc::alloc(&std::alloc::System, core::alloc::Layout::from_size_align_unchecked(ALLOC_BLOCK, layout.align()))
	}
	pub unsafe fn alloc_zeroed_rec(layout: core::alloc::Layout) -> *mut u8 {
		note(layout.size());
		std::alloc::GlobalAlloc::alloc_zeroed(&std::alloc::System, core::alloc::Layout::from_size_align_unchecked(ALLOC_BLOCK, layout.align()))
	}
	pub unsafe fn realloc_rec(ptr: *mut u8, layout: core::alloc::Layout, new_size: usize) -> *mut u8 {
		note(new_size);
		// blocks are ALLOC_BLOCK bytes: growing inside the block keeps the pointer
		let _ = layout;
		ptr
	}
	/// blocks are never returned (their real size differs from the layout the caller passes)
	pub unsafe fn dealloc_rec(_ptr: *mut u8, _layout: core::alloc::Layout) {}
	pub unsafe fn dealloc_nn_rec(_ptr: core::ptr::NonNull<u8>, _layout: core::alloc::Layout) {}
	pub unsafe fn realloc_nn_rec(ptr: core::ptr::NonNull<u8>, _layout: core::alloc::Layout, new_size: usize) -> *mut u8 {
		note(new_size);
		ptr.as_ptr()
	}
}

/// Attach environment stubs to a harness function and register the reach-end cover.
/// ```ignore
/// proof! { [hash_mix, alloc] fn name() { body } }     // base stubs + the listed groups
/// proof! { fn name() { body } }                       // base stubs only
/// ```
/// base = E1 E2 E11 E13; groups: `hash_mix` (E4a), `alloc` (E12), `rand` (E3), `zeroize` (E14).
#[macro_export]
macro_rules! proof {
	( fn $name:ident() $body:block ) => {
		$crate::proof! { [] fn $name() $body }
	};
	( [$($g:ident),*] $(#[$m:meta])* fn $name:ident() $body:block ) => {
		$crate::proof! { @acc [$($g,)*] [] $(#[$m])* fn $name() $body }
	};
	( @acc [hash_mix, $($g:ident,)*] [$($a:tt)*] $($rest:tt)* ) => {
		$crate::proof! { @acc [$($g,)*] [$($a)*
			#[cfg_attr(kani, kani::stub(b2::blake2b::Blake2b::compress, crate::env::stubs::blake2b_compress_mix))]
		] $($rest)* }
	};
	( @acc [hash_mix_count, $($g:ident,)*] [$($a:tt)*] $($rest:tt)* ) => {
		$crate::proof! { @acc [$($g,)*] [$($a)*
			#[cfg_attr(kani, kani::stub(b2::blake2b::Blake2b::compress, crate::env::stubs::blake2b_compress_mix_counting))]
		] $($rest)* }
	};
	( @acc [hash_ideal, $($g:ident,)*] [$($a:tt)*] $($rest:tt)* ) => {
		$crate::proof! { @acc [$($g,)*] [$($a)*
			#[cfg_attr(kani, kani::stub(b2::blake2b::Blake2b::compress, crate::env::stubs::blake2b_compress_ideal))]
		] $($rest)* }
	};
	( @acc [bitmap, $($g:ident,)*] [$($a:tt)*] $($rest:tt)* ) => {
		$crate::proof! { @acc [$($g,)*] [$($a)*
			#[cfg_attr(kani, kani::stub(croaring::Bitmap::new, crate::env::stubs::bitmap_new))]
			#[cfg_attr(kani, kani::stub(<croaring::Bitmap as core::ops::Drop>::drop, crate::env::stubs::bitmap_drop))]
			#[cfg_attr(kani, kani::stub(croaring::Bitmap::add, crate::env::stubs::bitmap_add))]
			#[cfg_attr(kani, kani::stub(croaring::Bitmap::remove, crate::env::stubs::bitmap_remove))]
			#[cfg_attr(kani, kani::stub(croaring::Bitmap::contains, crate::env::stubs::bitmap_contains))]
			#[cfg_attr(kani, kani::stub(croaring::Bitmap::cardinality, crate::env::stubs::bitmap_cardinality))]
			#[cfg_attr(kani, kani::stub(croaring::Bitmap::is_empty, crate::env::stubs::bitmap_is_empty))]
			#[cfg_attr(kani, kani::stub(croaring::Bitmap::range_cardinality, crate::env::stubs::bitmap_range_cardinality))]
			#[cfg_attr(kani, kani::stub(croaring::Bitmap::rank, crate::env::stubs::bitmap_rank))]
			#[cfg_attr(kani, kani::stub(croaring::Bitmap::select, crate::env::stubs::bitmap_select))]
			#[cfg_attr(kani, kani::stub(croaring::Bitmap::maximum, crate::env::stubs::bitmap_maximum))]
			#[cfg_attr(kani, kani::stub(croaring::Bitmap::minimum, crate::env::stubs::bitmap_minimum))]
			#[cfg_attr(kani, kani::stub(croaring::Bitmap::remove_range, crate::env::stubs::bitmap_remove_range))]
			#[cfg_attr(kani, kani::stub(croaring::Bitmap::add_range, crate::env::stubs::bitmap_add_range))]
			#[cfg_attr(kani, kani::stub(croaring::Bitmap::or_inplace, crate::env::stubs::bitmap_or_inplace))]
			#[cfg_attr(kani, kani::stub(croaring::Bitmap::and, crate::env::stubs::bitmap_and))]
			#[cfg_attr(kani, kani::stub(croaring::Bitmap::andnot, crate::env::stubs::bitmap_andnot))]
			#[cfg_attr(kani, kani::stub(croaring::Bitmap::flip, crate::env::stubs::bitmap_flip))]
			#[cfg_attr(kani, kani::stub(croaring::Bitmap::run_optimize, crate::env::stubs::bitmap_run_optimize))]
			#[cfg_attr(kani, kani::stub(<croaring::Bitmap as core::clone::Clone>::clone, crate::env::stubs::bitmap_clone))]
			#[cfg_attr(kani, kani::stub(croaring::bitmap::BitmapCursor::at_first, crate::env::stubs::cursor_at_first))]
			#[cfg_attr(kani, kani::stub(croaring::bitmap::BitmapCursor::move_next, crate::env::stubs::cursor_move_next))]
		] $($rest)* }
	};
	( @acc [bulk, $($g:ident,)*] [$($a:tt)*] $($rest:tt)* ) => {
		$crate::proof! { @acc [$($g,)*] [$($a)*
			#[cfg_attr(kani, kani::stub(croaring_sys::roaring_bitmap_add_bulk, crate::env::stubs::ffi_add_bulk))]
		] $($rest)* }
	};
	( @acc [alloc, $($g:ident,)*] [$($a:tt)*] $($rest:tt)* ) => {
		$crate::proof! { @acc [$($g,)*] [$($a)*
			#[cfg_attr(kani, kani::stub(alloc::alloc::alloc, crate::env::stubs::alloc_rec))]
			#[cfg_attr(kani, kani::stub(alloc::alloc::alloc_zeroed, crate::env::stubs::alloc_zeroed_rec))]
			#[cfg_attr(kani, kani::stub(alloc::alloc::realloc, crate::env::stubs::realloc_rec))]
			#[cfg_attr(kani, kani::stub(alloc::alloc::dealloc, crate::env::stubs::dealloc_rec))]
			#[cfg_attr(kani, kani::stub(alloc::alloc::dealloc_nonnull, crate::env::stubs::dealloc_nn_rec))]
			#[cfg_attr(kani, kani::stub(alloc::alloc::realloc_nonnull, crate::env::stubs::realloc_nn_rec))]
		] $($rest)* }
	};
	( @acc [rand, $($g:ident,)*] [$($a:tt)*] $($rest:tt)* ) => {
		$crate::proof! { @acc [$($g,)*] [$($a)*
			#[cfg_attr(kani, kani::stub(std::collections::hash_map::RandomState::new, crate::env::stubs::random_state_new))]
		] $($rest)* }
	};
	( @acc [sort, $($g:ident,)*] [$($a:tt)*] $($rest:tt)* ) => {
		$crate::proof! { @acc [$($g,)*] [$($a)*
			#[cfg_attr(kani, kani::stub(core::slice::sort::unstable::sort, crate::env::stubs::insertion_sort))]
			#[cfg_attr(kani, kani::stub(alloc::slice::stable_sort, crate::env::stubs::stable_sort))]
		] $($rest)* }
	};
	( @acc [secp, $($g:ident,)*] [$($a:tt)*] $($rest:tt)* ) => {
		$crate::proof! { @acc [$($g,)*] [$($a)*
			#[cfg_attr(kani, kani::stub(grin_util::secp_static::static_secp_instance, crate::secp_model::static_secp_instance))]
			#[cfg_attr(kani, kani::stub(<grin_util::secp::Secp256k1 as core::ops::Drop>::drop, crate::secp_model::secp_drop))]
			#[cfg_attr(kani, kani::stub(grin_util::secp::Secp256k1::commit, crate::secp_model::commit))]
			#[cfg_attr(kani, kani::stub(grin_util::secp::Secp256k1::commit_value, crate::secp_model::commit_value))]
			#[cfg_attr(kani, kani::stub(grin_util::secp::Secp256k1::commit_sum, crate::secp_model::commit_sum))]
			#[cfg_attr(kani, kani::stub(grin_util::secp::Secp256k1::blind_sum, crate::secp_model::blind_sum))]
			#[cfg_attr(kani, kani::stub(grin_util::secp::key::SecretKey::from_slice, crate::secp_model::secret_key_from_slice))]
			#[cfg_attr(kani, kani::stub(grin_util::secp::pedersen::Commitment::to_pubkey, crate::secp_model::to_pubkey))]
			#[cfg_attr(kani, kani::stub(grin_util::secp::aggsig::verify_batch, crate::secp_model::verify_batch))]
			#[cfg_attr(kani, kani::stub(grin_util::secp::Secp256k1::verify_bullet_proof_multi, crate::secp_model::verify_bullet_proof_multi))]
			#[cfg_attr(kani, kani::stub(zeroize::barrier::optimization_barrier, crate::env::stubs::optimization_barrier))]
		] $($rest)* }
	};
	( @acc [clock, $($g:ident,)*] [$($a:tt)*] $($rest:tt)* ) => {
		$crate::proof! { @acc [$($g,)*] [$($a)*
			#[cfg_attr(kani, kani::stub(std::time::SystemTime::now, crate::env::stubs::system_time_now))]
			#[cfg_attr(kani, kani::stub(std::time::Instant::now, crate::env::stubs::instant_now))]
			#[cfg_attr(kani, kani::stub(std::thread::sleep, crate::env::stubs::thread_sleep))]
		] $($rest)* }
	};
	( @acc [zeroize, $($g:ident,)*] [$($a:tt)*] $($rest:tt)* ) => {
		$crate::proof! { @acc [$($g,)*] [$($a)*
			#[cfg_attr(kani, kani::stub(zeroize::barrier::optimization_barrier, crate::env::stubs::optimization_barrier))]
		] $($rest)* }
	};
	( @acc [] [$($a:tt)*] $(#[$m:meta])* fn $name:ident() $body:block ) => {
		#[cfg_attr(kani, kani::proof)]
		#[cfg_attr(kani, kani::stub(alloc::fmt::format, crate::env::stubs::fmt_format))]
		#[cfg_attr(kani, kani::stub(grin_core::global::get_chain_type, crate::env::stubs::get_chain_type))]
		#[cfg_attr(kani, kani::stub(grin_core::global::is_nrd_enabled, crate::env::stubs::is_nrd_enabled))]
		#[cfg_attr(kani, kani::stub(grin_core::global::get_accept_fee_base, crate::env::stubs::get_accept_fee_base))]
		#[cfg_attr(kani, kani::stub(grin_core::global::get_future_time_limit, crate::env::stubs::get_future_time_limit))]
		#[cfg_attr(kani, kani::stub(<parking_lot::RawMutex as lock_api::RawMutex>::lock, crate::env::stubs::raw_mutex_lock))]
		#[cfg_attr(kani, kani::stub(<parking_lot::RawMutex as lock_api::RawMutex>::unlock, crate::env::stubs::raw_mutex_unlock))]
		#[cfg_attr(kani, kani::stub(<parking_lot::RawRwLock as lock_api::RawRwLock>::lock_shared, crate::env::stubs::raw_rw_lock_shared))]
		#[cfg_attr(kani, kani::stub(<parking_lot::RawRwLock as lock_api::RawRwLock>::unlock_shared, crate::env::stubs::raw_rw_unlock_shared))]
		#[cfg_attr(kani, kani::stub(<parking_lot::RawRwLock as lock_api::RawRwLock>::lock_exclusive, crate::env::stubs::raw_rw_lock_exclusive))]
		#[cfg_attr(kani, kani::stub(<parking_lot::RawRwLock as lock_api::RawRwLock>::unlock_exclusive, crate::env::stubs::raw_rw_unlock_exclusive))]
		#[cfg_attr(kani, kani::stub(grin_core::ser::map_io_err, crate::env::stubs::map_io_err))]
		#[cfg_attr(kani, kani::stub(<grin_core::ser::Error as core::convert::From<std::io::Error>>::from, crate::env::stubs::ser_error_from_io))]
		$($a)*
		$(#[$m])*
		pub fn $name() {
			let _: () = $body;
			$crate::reach_end!();
		}
	};
}

/// `use` lines every harness module needs so that Kani can resolve the stub paths.
#[macro_export]
macro_rules! base_uses {
	() => {
		#[allow(unused_imports)]
		use ::alloc;
		#[allow(unused_imports)]
		use ::grin_core;
		#[allow(unused_imports)]
		use ::lock_api;
		#[allow(unused_imports)]
		use ::parking_lot;
		#[allow(unused_imports)]
		use ::std;
		#[allow(unused_imports)]
		use ::core;
		#[allow(unused_imports)]
		use ::blake2 as b2;
		#[allow(unused_imports)]
		use ::zeroize;
		#[allow(unused_imports)]
		use ::grin_util;
		#[allow(unused_imports)]
		use ::croaring;
		#[allow(unused_imports)]
		use ::croaring_sys;
	};
}
