//! Environment models (DESIGN.md §3). Everything in `stubs` replaces a real function only
//! under Kani, through `#[kani::stub]`; the native replay build runs the real functions.

use grin_core::global::{self, ChainTypes};

/// Configuration inputs (E2). Under Kani these are plain statics read by the stubbed getters;
/// natively they are forwarded to grin's own thread-local setters.
pub fn set_chain_type(ct: ChainTypes) {
	#[cfg(kani)]
	unsafe {
		stubs::CHAIN_TYPE = ct;
	}
	#[cfg(not(kani))]
	global::set_local_chain_type(ct);
}
pub fn set_nrd_enabled(b: bool) {
	#[cfg(kani)]
	unsafe {
		stubs::NRD_ENABLED = b;
	}
	#[cfg(not(kani))]
	global::set_local_nrd_enabled(b);
}
pub fn set_accept_fee_base(v: u64) {
	#[cfg(kani)]
	unsafe {
		stubs::ACCEPT_FEE_BASE = v;
	}
	#[cfg(not(kani))]
	global::set_local_accept_fee_base(v);
}
pub fn set_future_time_limit(v: u64) {
	#[cfg(kani)]
	unsafe {
		stubs::FUTURE_TIME_LIMIT = v;
	}
	#[cfg(not(kani))]
	global::set_local_future_time_limit(v);
}

/// Largest single allocation request since `alloc_reset()` (E12 ghost under Kani, a counting
/// global allocator natively).
pub fn alloc_max() -> usize {
	#[cfg(kani)]
	unsafe {
		return stubs::ALLOC_MAX;
	}
	#[cfg(not(kani))]
	native_alloc::MAX.load(std::sync::atomic::Ordering::Relaxed)
}
pub fn alloc_limit(limit: usize) {
	#[cfg(kani)]
	unsafe {
		stubs::ALLOC_LIMIT = limit;
	}
	let _ = limit;
}
pub fn alloc_reset() {
	#[cfg(kani)]
	unsafe {
		stubs::ALLOC_MAX = 0;
	}
	#[cfg(not(kani))]
	native_alloc::MAX.store(0, std::sync::atomic::Ordering::Relaxed);
}

#[cfg(not(kani))]
pub mod native_alloc {
	use std::alloc::{GlobalAlloc, Layout, System};
	use std::sync::atomic::{AtomicUsize, Ordering};
	pub static MAX: AtomicUsize = AtomicUsize::new(0);
	pub struct Counting;
	unsafe impl GlobalAlloc for Counting {
		unsafe fn alloc(&self, l: Layout) -> *mut u8 {
			MAX.fetch_max(l.size(), Ordering::Relaxed);
			System.alloc(l)
		}
		unsafe fn alloc_zeroed(&self, l: Layout) -> *mut u8 {
			MAX.fetch_max(l.size(), Ordering::Relaxed);
			System.alloc_zeroed(l)
		}
		unsafe fn realloc(&self, p: *mut u8, l: Layout, n: usize) -> *mut u8 {
			MAX.fetch_max(n, Ordering::Relaxed);
			System.realloc(p, l, n)
		}
		unsafe fn dealloc(&self, p: *mut u8, l: Layout) {
			System.dealloc(p, l)
		}
	}
	#[global_allocator]
	static A: Counting = Counting;
}

/// One of the four chain types, chosen by a symbolic byte.
pub fn any_chain_type() -> ChainTypes {
	let k: u8 = crate::nd::any();
	crate::nd::assume(k < 4);
	chain_type_of(k)
}
pub fn chain_type_of(k: u8) -> ChainTypes {
	match k {
		0 => ChainTypes::AutomatedTesting,
		1 => ChainTypes::UserTesting,
		2 => ChainTypes::Testnet,
		_ => ChainTypes::Mainnet,
	}
}

#[cfg(kani)]
pub mod stubs {
	use grin_core::global::ChainTypes;
	use grin_core::ser;
	use std::io;

	pub static mut CHAIN_TYPE: ChainTypes = ChainTypes::AutomatedTesting;
	pub static mut NRD_ENABLED: bool = false;
	pub static mut ACCEPT_FEE_BASE: u64 = 500_000;
	pub static mut FUTURE_TIME_LIMIT: u64 = 5 * 60;

	// ---- E1: formatting produces no text (no clause observes message text)
	pub fn fmt_format(_args: core::fmt::Arguments<'_>) -> String {
		String::new()
	}

	// ---- E2: node configuration is an explicit input
	pub fn get_chain_type() -> ChainTypes {
		unsafe { CHAIN_TYPE }
	}
	pub fn is_nrd_enabled() -> bool {
		unsafe { NRD_ENABLED }
	}
	pub fn get_accept_fee_base() -> u64 {
		unsafe { ACCEPT_FEE_BASE }
	}
	pub fn get_future_time_limit() -> u64 {
		unsafe { FUTURE_TIME_LIMIT }
	}

	// ---- E11: uncontended locks are the identity (single-threaded symbolic execution)
	pub fn raw_mutex_lock(_m: &parking_lot::RawMutex) {}
	pub fn raw_mutex_unlock(_m: &parking_lot::RawMutex) {}
	pub fn raw_rw_lock_shared(_m: &parking_lot::RawRwLock) {}
	pub fn raw_rw_unlock_shared(_m: &parking_lot::RawRwLock) {}
	pub fn raw_rw_lock_exclusive(_m: &parking_lot::RawRwLock) {}
	pub fn raw_rw_unlock_exclusive(_m: &parking_lot::RawRwLock) {}

	// ---- E13: same error value, but the io::Error is forgotten instead of dropped
	// (its drop glue is recursive through Box<dyn Error>)
	pub fn map_io_err(err: io::Error) -> ser::Error {
		let k = err.kind();
		core::mem::forget(err);
		ser::Error::IOErr(String::new(), k)
	}
	pub fn ser_error_from_io(e: io::Error) -> ser::Error {
		let k = e.kind();
		core::mem::forget(e);
		ser::Error::IOErr(String::new(), k)
	}

	// ---- E15: std's unstable sort (ipnsort / sorting networks over raw pointers) replaced by
	// an insertion sort with the same signature and comparator
	pub fn insertion_sort<T, F: FnMut(&T, &T) -> bool>(v: &mut [T], is_less: &mut F) {
		let n = v.len();
		let mut i = 1;
		while i < n {
			let mut j = i;
			while j > 0 && is_less(&v[j], &v[j - 1]) {
				v.swap(j, j - 1);
				j -= 1;
			}
			i += 1;
		}
	}

	// ---- E14: zeroize's compiler barrier is inline asm with no data effect
	pub fn optimization_barrier<T: ?Sized>(_v: &T) {}

	// ---- E3: fixed hash-map keys (iteration order is never observed)
	pub fn random_state_new() -> std::collections::hash_map::RandomState {
		// RandomState is two u64 keys
		unsafe { core::mem::transmute::<(u64, u64), std::collections::hash_map::RandomState>((1, 2)) }
	}

	// ---- E4a: cheap deterministic mixer in place of blake2b's compression function
	// (`Blake2b::compress`, the only arithmetic of the hash; `update` merely buffers <=128 B).
	// The state struct's fields are private, the stub reaches them through a mirror struct of
	// the same field types in the same order (size asserted at compile time).
	#[repr(C)]
	pub struct B2Mirror {
		pub m: [u64; 16],
		pub h: [[u64; 4]; 2],
		pub t: u64,
		pub nn: usize,
	}
	const _: () = assert!(core::mem::size_of::<B2Mirror>() == core::mem::size_of::<b2::blake2b::Blake2b>());
	use ::blake2 as b2;

	pub fn blake2b_compress_mix(st: &mut b2::blake2b::Blake2b, f0: u64, f1: u64) {
		let s: &mut B2Mirror = unsafe { &mut *(st as *mut b2::blake2b::Blake2b as *mut B2Mirror) };
		let m = &s.m;
		let mut acc = s.t ^ f0 ^ f1.rotate_left(1);
		macro_rules! fold { ($($i:expr),*) => { $( acc = acc.rotate_left(7) ^ m[$i]; )* } }
		fold!(0, 1, 2, 3, 4, 5, 6, 7, 8, 9, 10, 11, 12, 13, 14, 15);
		macro_rules! mixh { ($($a:expr, $b:expr, $k:expr);*) => { $(
			s.h[$a][$b] = s.h[$a][$b].rotate_left($k + 1) ^ acc.rotate_left(5 * $k + 3) ^ m[$k] ^ m[$k + 8].rotate_left(13);
		)* } }
		mixh!(0,0,0; 0,1,1; 0,2,2; 0,3,3; 1,0,4; 1,1,5; 1,2,6; 1,3,7);
	}

	// ---- E4b: ideal hash. Every distinct single-block message (block words + length) gets a
	// fresh identifier; equal messages get the same one. Collision freedom is thereby an
	// explicit assumption of every harness that uses it ("tampering is detected" is true only
	// modulo collision resistance). All of grin's MMR hashes are single-block (<= 128 bytes).
	pub const IDEAL_N: usize = 40;
	pub static mut IDEAL_KEYS: [[u64; 17]; IDEAL_N] = [[0; 17]; IDEAL_N];
	pub static mut IDEAL_LEN: usize = 0;
	pub fn blake2b_compress_ideal(st: &mut b2::blake2b::Blake2b, f0: u64, _f1: u64) {
		let s: &mut B2Mirror = unsafe { &mut *(st as *mut b2::blake2b::Blake2b as *mut B2Mirror) };
		kani::assert(s.t <= 128 && f0 == !0, "ideal hash model: single-block messages only");
		let mut key = [0u64; 17];
		key[..16].copy_from_slice(&s.m);
		key[16] = s.t;
		let mut id = 0usize;
		let mut found = false;
		let mut i = 0;
		unsafe {
			while i < IDEAL_N {
				if i < IDEAL_LEN && !found && IDEAL_KEYS[i] == key {
					id = i;
					found = true;
				}
				i += 1;
			}
			if !found {
				kani::assert(IDEAL_LEN < IDEAL_N, "ideal hash table large enough for this harness");
				kani::assume(IDEAL_LEN < IDEAL_N);
				id = IDEAL_LEN;
				IDEAL_KEYS[id] = key;
				IDEAL_LEN += 1;
			}
		}
		// the digest is the first 32 bytes of h: an injective image of the identifier
		let v = id as u64 + 1;
		s.h[0] = [v ^ 0x9e37_79b9_7f4a_7c15, v.rotate_left(17) ^ 0x1234_5678_9abc_def0, !v, v << 32 | v];
		s.h[1] = [0; 4];
	}

	// ---- E12: allocation ghost. Every request is checked against ALLOC_LIMIT (set by the
	// harness); the request is then served by a block of the *concrete* size ALLOC_BLOCK so that
	// no heap object has a symbolic size (symbolic-size objects are what made 8-byte decoder
	// queries exceed 10 GB). Requests above ALLOC_BLOCK are cut off after the assertion.
	pub static mut ALLOC_MAX: usize = 0;
	pub static mut ALLOC_LIMIT: usize = usize::MAX;
	pub const ALLOC_BLOCK: usize = 4096;
	unsafe fn note(size: usize) {
		if size > ALLOC_MAX {
			ALLOC_MAX = size;
		}
		kani::assert(size <= ALLOC_LIMIT, "allocation request within the bound for this input length");
		kani::assume(size <= ALLOC_BLOCK);
	}
	pub unsafe fn alloc_rec(layout: core::alloc::Layout) -> *mut u8 {
		note(layout.size());
		std::alloc::GlobalAlloc::alloc(&std::alloc::System, core::alloc::Layout::from_size_align_unchecked(ALLOC_BLOCK, layout.align()))
	}
	pub unsafe fn alloc_zeroed_rec(layout: core::alloc::Layout) -> *mut u8 {
		note(layout.size());
		std::alloc::GlobalAlloc::alloc_zeroed(&std::alloc::System, core::alloc::Layout::from_size_align_unchecked(ALLOC_BLOCK, layout.align()))
	}
	pub unsafe fn realloc_rec(ptr: *mut u8, layout: core::alloc::Layout, new_size: usize) -> *mut u8 {
		note(new_size);
		// blocks are ALLOC_BLOCK bytes: growing inside the block keeps the pointer
		let _ = layout;
		ptr
	}
	/// blocks are never returned (their real size differs from the layout the caller passes)
	pub unsafe fn dealloc_rec(_ptr: *mut u8, _layout: core::alloc::Layout) {}
	pub unsafe fn dealloc_nn_rec(_ptr: core::ptr::NonNull<u8>, _layout: core::alloc::Layout) {}
	pub unsafe fn realloc_nn_rec(ptr: core::ptr::NonNull<u8>, _layout: core::alloc::Layout, new_size: usize) -> *mut u8 {
		note(new_size);
		ptr.as_ptr()
	}
}

/// Attach environment stubs to a harness function and register the reach-end cover.
/// ```ignore
/// proof! { [hash_mix, alloc] fn name() { body } }     // base stubs + the listed groups
/// proof! { fn name() { body } }                       // base stubs only
/// ```
/// base = E1 E2 E11 E13; groups: `hash_mix` (E4a), `alloc` (E12), `rand` (E3), `zeroize` (E14).
#[macro_export]
macro_rules! proof {
	( fn $name:ident() $body:block ) => {
		$crate::proof! { [] fn $name() $body }
	};
	( [$($g:ident),*] $(#[$m:meta])* fn $name:ident() $body:block ) => {
		$crate::proof! { @acc [$($g,)*] [] $(#[$m])* fn $name() $body }
	};
	( @acc [hash_mix, $($g:ident,)*] [$($a:tt)*] $($rest:tt)* ) => {
		$crate::proof! { @acc [$($g,)*] [$($a)*
			#[cfg_attr(kani, kani::stub(b2::blake2b::Blake2b::compress, crate::env::stubs::blake2b_compress_mix))]
		] $($rest)* }
	};
	( @acc [hash_ideal, $($g:ident,)*] [$($a:tt)*] $($rest:tt)* ) => {
		$crate::proof! { @acc [$($g,)*] [$($a)*
			#[cfg_attr(kani, kani::stub(b2::blake2b::Blake2b::compress, crate::env::stubs::blake2b_compress_ideal))]
		] $($rest)* }
	};
	( @acc [alloc, $($g:ident,)*] [$($a:tt)*] $($rest:tt)* ) => {
		$crate::proof! { @acc [$($g,)*] [$($a)*
			#[cfg_attr(kani, kani::stub(alloc::alloc::alloc, crate::env::stubs::alloc_rec))]
			#[cfg_attr(kani, kani::stub(alloc::alloc::alloc_zeroed, crate::env::stubs::alloc_zeroed_rec))]
			#[cfg_attr(kani, kani::stub(alloc::alloc::realloc, crate::env::stubs::realloc_rec))]
			#[cfg_attr(kani, kani::stub(alloc::alloc::dealloc, crate::env::stubs::dealloc_rec))]
			#[cfg_attr(kani, kani::stub(alloc::alloc::dealloc_nonnull, crate::env::stubs::dealloc_nn_rec))]
			#[cfg_attr(kani, kani::stub(alloc::alloc::realloc_nonnull, crate::env::stubs::realloc_nn_rec))]
		] $($rest)* }
	};
	( @acc [rand, $($g:ident,)*] [$($a:tt)*] $($rest:tt)* ) => {
		$crate::proof! { @acc [$($g,)*] [$($a)*
			#[cfg_attr(kani, kani::stub(std::collections::hash_map::RandomState::new, crate::env::stubs::random_state_new))]
		] $($rest)* }
	};
	( @acc [sort, $($g:ident,)*] [$($a:tt)*] $($rest:tt)* ) => {
		$crate::proof! { @acc [$($g,)*] [$($a)*
			#[cfg_attr(kani, kani::stub(core::slice::sort::unstable::sort, crate::env::stubs::insertion_sort))]
		] $($rest)* }
	};
	( @acc [secp, $($g:ident,)*] [$($a:tt)*] $($rest:tt)* ) => {
		$crate::proof! { @acc [$($g,)*] [$($a)*
			#[cfg_attr(kani, kani::stub(grin_util::secp_static::static_secp_instance, crate::secp_model::static_secp_instance))]
			#[cfg_attr(kani, kani::stub(<grin_util::secp::Secp256k1 as core::ops::Drop>::drop, crate::secp_model::secp_drop))]
			#[cfg_attr(kani, kani::stub(grin_util::secp::Secp256k1::commit, crate::secp_model::commit))]
			#[cfg_attr(kani, kani::stub(grin_util::secp::Secp256k1::commit_value, crate::secp_model::commit_value))]
			#[cfg_attr(kani, kani::stub(grin_util::secp::Secp256k1::commit_sum, crate::secp_model::commit_sum))]
			#[cfg_attr(kani, kani::stub(grin_util::secp::Secp256k1::blind_sum, crate::secp_model::blind_sum))]
			#[cfg_attr(kani, kani::stub(grin_util::secp::key::SecretKey::from_slice, crate::secp_model::secret_key_from_slice))]
			#[cfg_attr(kani, kani::stub(grin_util::secp::pedersen::Commitment::to_pubkey, crate::secp_model::to_pubkey))]
			#[cfg_attr(kani, kani::stub(grin_util::secp::aggsig::verify_batch, crate::secp_model::verify_batch))]
			#[cfg_attr(kani, kani::stub(grin_util::secp::Secp256k1::verify_bullet_proof_multi, crate::secp_model::verify_bullet_proof_multi))]
			#[cfg_attr(kani, kani::stub(zeroize::barrier::optimization_barrier, crate::env::stubs::optimization_barrier))]
		] $($rest)* }
	};
	( @acc [zeroize, $($g:ident,)*] [$($a:tt)*] $($rest:tt)* ) => {
		$crate::proof! { @acc [$($g,)*] [$($a)*
			#[cfg_attr(kani, kani::stub(zeroize::barrier::optimization_barrier, crate::env::stubs::optimization_barrier))]
		] $($rest)* }
	};
	( @acc [] [$($a:tt)*] $(#[$m:meta])* fn $name:ident() $body:block ) => {
		#[cfg_attr(kani, kani::proof)]
		#[cfg_attr(kani, kani::stub(alloc::fmt::format, crate::env::stubs::fmt_format))]
		#[cfg_attr(kani, kani::stub(grin_core::global::get_chain_type, crate::env::stubs::get_chain_type))]
		#[cfg_attr(kani, kani::stub(grin_core::global::is_nrd_enabled, crate::env::stubs::is_nrd_enabled))]
		#[cfg_attr(kani, kani::stub(grin_core::global::get_accept_fee_base, crate::env::stubs::get_accept_fee_base))]
		#[cfg_attr(kani, kani::stub(grin_core::global::get_future_time_limit, crate::env::stubs::get_future_time_limit))]
		#[cfg_attr(kani, kani::stub(<parking_lot::RawMutex as lock_api::RawMutex>::lock, crate::env::stubs::raw_mutex_lock))]
		#[cfg_attr(kani, kani::stub(<parking_lot::RawMutex as lock_api::RawMutex>::unlock, crate::env::stubs::raw_mutex_unlock))]
		#[cfg_attr(kani, kani::stub(<parking_lot::RawRwLock as lock_api::RawRwLock>::lock_shared, crate::env::stubs::raw_rw_lock_shared))]
		#[cfg_attr(kani, kani::stub(<parking_lot::RawRwLock as lock_api::RawRwLock>::unlock_shared, crate::env::stubs::raw_rw_unlock_shared))]
		#[cfg_attr(kani, kani::stub(<parking_lot::RawRwLock as lock_api::RawRwLock>::lock_exclusive, crate::env::stubs::raw_rw_lock_exclusive))]
		#[cfg_attr(kani, kani::stub(<parking_lot::RawRwLock as lock_api::RawRwLock>::unlock_exclusive, crate::env::stubs::raw_rw_unlock_exclusive))]
		#[cfg_attr(kani, kani::stub(grin_core::ser::map_io_err, crate::env::stubs::map_io_err))]
		#[cfg_attr(kani, kani::stub(<grin_core::ser::Error as core::convert::From<std::io::Error>>::from, crate::env::stubs::ser_error_from_io))]
		$($a)*
		$(#[$m])*
		pub fn $name() {
			let _: () = $body;
			$crate::reach_end!();
		}
	};
}

/// `use` lines every harness module needs so that Kani can resolve the stub paths.
#[macro_export]
macro_rules! base_uses {
	() => {
		#[allow(unused_imports)]
		use ::alloc;
		#[allow(unused_imports)]
		use ::grin_core;
		#[allow(unused_imports)]
		use ::lock_api;
		#[allow(unused_imports)]
		use ::parking_lot;
		#[allow(unused_imports)]
		use ::std;
		#[allow(unused_imports)]
		use ::core;
		#[allow(unused_imports)]
		use ::blake2 as b2;
		#[allow(unused_imports)]
		use ::zeroize;
		#[allow(unused_imports)]
		use ::grin_util;
	};
}
