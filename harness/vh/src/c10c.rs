//! C10 — containers: compact block body, round trip per shape.
//! Shapes (numbers of full outputs / full kernels / short ids) are concrete per query, contents
//! symbolic. Range proofs are zero-length (their bytes are opaque to the encoding).
base_uses!();
use crate::c10::{any_commit, any_kernel, any_version};
use crate::{env, nd};
use grin_core::core::id::ShortId;
use grin_core::core::transaction::OutputFeatures;
use grin_core::core::{CompactBlockBody, Output, TxKernel};
use grin_core::ser::{self, DeserializationMode, ProtocolVersion, Readable, Writeable};
use grin_util::secp::pedersen::RangeProof;

const fn parse_env(s: Option<&str>, default: u64) -> u64 {
	match s {
		Some(s) => {
			let b = s.as_bytes();
			let mut v = 0u64;
			let mut i = 0;
			while i < b.len() {
				v = v * 10 + (b[i] - b'0') as u64;
				i += 1;
			}
			v
		}
		None => default,
	}
}
const NOUT: usize = parse_env(option_env!("VH_NOUT"), 1) as usize;
const NKERN: usize = parse_env(option_env!("VH_NK"), 0) as usize;
const NIDS: usize = parse_env(option_env!("VH_NIDS"), 0) as usize;
/// 24 bytes of counts + 42 per output (feature, commitment, empty proof) + 114 per kernel + 6 per id
const LEN: usize = 24 + 42 * NOUT + 114 * NKERN + 6 * NIDS;

fn any_output() -> Output {
	let f: bool = nd::any();
	let features = if f { OutputFeatures::Coinbase } else { OutputFeatures::Plain };
	Output::new(features, any_commit(), RangeProof { proof: [0u8; 675], plen: 0 })
}

proof! {
	[hash_mix, alloc] fn compact_block_body_roundtrip() {
		// every compact block body of this shape decodes from its own encoding to an equal value:
		// the three counts are written and read in the same order and each list is read with its
		// own count (lists with one element are trivially sorted)
		env::set_nrd_enabled(false);
		let v = any_version();
		let mut out_full = Vec::with_capacity(NOUT);
		let mut kern_full = Vec::with_capacity(NKERN);
		let mut kern_ids = Vec::with_capacity(NIDS);
		let mut i = 0;
		while i < NOUT { out_full.push(any_output()); i += 1; }
		i = 0;
		while i < NKERN { kern_full.push(any_kernel(false)); i += 1; }
		i = 0;
		while i < NIDS {
			let b: [u8; 6] = nd::any();
			kern_ids.push(ShortId::from_bytes(&b));
			i += 1;
		}
		let body = CompactBlockBody { out_full, kern_full, kern_ids };
		let mut buf = [0u8; LEN];
		let used = {
			let mut sink: &mut [u8] = &mut buf[..];
			ser::serialize(&mut sink, v, &body).expect("serialises");
			LEN - sink.len()
		};
		check!(used == LEN, "encoded length = counts + elements");
		check!(buf[7] as usize == NOUT && buf[15] as usize == NKERN && buf[23] as usize == NIDS, "counts are written in the order outputs, kernels, short ids");
		let mut src: &[u8] = &buf[..];
		let r = ser::deserialize::<CompactBlockBody, _>(&mut src, v, DeserializationMode::default());
		check!(r.is_ok(), "own encoding decodes");
		let got = r.unwrap();
		check!(src.is_empty(), "decoder consumes exactly the encoding");
		check!(got.out_full.len() == NOUT && got.kern_full.len() == NKERN && got.kern_ids.len() == NIDS, "list lengths survive");
		i = 0;
		while i < NOUT {
			check!(got.out_full[i].identifier == body.out_full[i].identifier, "outputs survive");
			i += 1;
		}
		i = 0;
		while i < NKERN {
			check!(got.kern_full[i].features == body.kern_full[i].features && got.kern_full[i].excess == body.kern_full[i].excess, "kernels survive");
			i += 1;
		}
		i = 0;
		while i < NIDS {
			check!(got.kern_ids[i].as_ref() == body.kern_ids[i].as_ref(), "short ids survive");
			i += 1;
		}
		core::mem::forget(body);
		core::mem::forget(got);
	}
}

proof! {
	[hash_mix, alloc] fn compact_block_body_read_counts() {
		// reader side only (the round trip of shapes with an output or a kernel does not finish):
		// a buffer announcing NOUT full outputs, NKERN full kernels and NIDS short ids, followed by
		// arbitrary bytes of the matching length: whenever CompactBlockBody::read accepts it, each
		// list has exactly its own announced count (every list read with ITS count, in the
		// written order), and at v1 (fixed-size kernels) exactly the buffer is consumed
		env::set_nrd_enabled(false);
		let v = any_version();
		let mut buf: [u8; LEN] = nd::any();
		let mut i = 0;
		while i < 24 {
			buf[i] = 0;
			i += 1;
		}
		buf[7] = NOUT as u8;
		buf[15] = NKERN as u8;
		buf[23] = NIDS as u8;
		// outputs carry an empty range proof in this buffer layout (length field = 0)
		i = 0;
		while i < NOUT {
			let at = 24 + 42 * i + 34;
			let mut j = 0;
			while j < 8 {
				buf[at + j] = 0;
				j += 1;
			}
			i += 1;
		}
		crate::env::alloc_limit(64 * LEN + 4096);
		let mut src: &[u8] = &buf[..];
		let r = ser::deserialize::<CompactBlockBody, _>(&mut src, v, DeserializationMode::default());
		if let Ok(got) = &r {
			check!(got.out_full.len() == NOUT, "full outputs are read with their own count");
			check!(got.kern_full.len() == NKERN, "full kernels are read with their own count");
			check!(got.kern_ids.len() == NIDS, "short ids are read with their own count");
			if v.value() == 1 {
				check!(src.is_empty(), "v1: exactly the announced content is consumed");
			}
			cover!(true, "some buffer of this shape decodes");
		}
		core::mem::forget(r);
	}
}

pub const HARNESSES: &[(&str, fn())] = &[("c10c::compact_block_body_roundtrip", compact_block_body_roundtrip), ("c10c::compact_block_body_read_counts", compact_block_body_read_counts)];
