//! C12 — cut-through removes exactly the matched spend pairs (generic algorithm).
base_uses!();
use crate::{env, nd};
use grin_core::core::transaction::{self, Error};
use grin_util::secp::pedersen::Commitment;
use std::cmp::Ordering;

/// Harness element type: a commitment that varies in one byte, ordered by that byte.
/// `cut_through` is generic over `AsRef<Commitment> + Ord`; grin's instantiations
/// (CommitWrapper / Output, ordered by *hash*) differ only in which total order the final
/// `sort_unstable` uses, not in the matching logic.
#[derive(Clone, Copy, PartialEq, Eq)]
pub struct W(Commitment);
impl AsRef<Commitment> for W {
	fn as_ref(&self) -> &Commitment {
		&self.0
	}
}
impl PartialOrd for W {
	fn partial_cmp(&self, o: &Self) -> Option<Ordering> {
		Some(self.cmp(o))
	}
}
impl Ord for W {
	fn cmp(&self, o: &Self) -> Ordering {
		(self.0).0[0].cmp(&(o.0).0[0])
	}
}
fn w(b: u8) -> W {
	let mut c = [0u8; 33];
	c[0] = b;
	W(Commitment(c))
}
fn key(x: &W) -> u8 {
	(x.0).0[0]
}
fn count(v: &[W], b: u8) -> usize {
	let mut n = 0;
	let mut i = 0;
	while i < v.len() {
		if key(&v[i]) == b {
			n += 1;
		}
		i += 1;
	}
	n
}
fn sorted(v: &[W]) -> bool {
	let mut i = 1;
	while i < v.len() {
		if key(&v[i - 1]) > key(&v[i]) {
			return false;
		}
		i += 1;
	}
	true
}

fn cut_through_case<const NI: usize, const NO: usize>() {
	let mut ins = [w(0); NI];
	let mut outs = [w(0); NO];
	let mut i = 0;
	while i < NI {
		ins[i] = w(nd::any());
		i += 1;
	}
	i = 0;
	while i < NO {
		outs[i] = w(nd::any());
		i += 1;
	}
	let ins0 = ins;
	let outs0 = outs;
	// probe value: the multiset equations are checked for an arbitrary commitment
	let b: u8 = nd::any();
	let ci = count(&ins0, b);
	let co = count(&outs0, b);
	let m = if ci < co { ci } else { co };
	let r = transaction::cut_through(&mut ins[..], &mut outs[..]);
	match r {
		Ok((ri, ro, ci_cut, co_cut)) => {
			check!(count(ri, b) == ci - m, "remaining inputs = inputs minus matched pairs");
			check!(count(ro, b) == co - m, "remaining outputs = outputs minus matched pairs");
			check!(count(ci_cut, b) == m && count(co_cut, b) == m, "cut slices hold exactly the matched pairs");
			check!(ri.len() + ci_cut.len() == NI && ro.len() + co_cut.len() == NO, "nothing lost, nothing invented");
			check!(sorted(ri) && sorted(ro) && sorted(ci_cut) && sorted(co_cut), "all four slices sorted");
			check!(ci - m <= 1 && co - m <= 1, "Ok only if no duplicate survives");
			cover!(m == 1, "one pair cut");
			cover!(ci_cut.len() == 2, "two pairs cut");
		}
		Err(e) => {
			check!(matches!(e, Error::CutThrough), "only the cut-through error");
			// some value survives twice on one side
			let d: u8 = nd::any();
			let di = count(&ins0, d);
			let dox = count(&outs0, d);
			let dm = if di < dox { di } else { dox };
			cover!(di - dm >= 2 || dox - dm >= 2, "a surviving duplicate exists");
		}
	}
}

proof! { [sort] fn cut_through_2_2() { cut_through_case::<2, 2>(); } }
proof! { [sort] fn cut_through_1_2() { cut_through_case::<1, 2>(); } }
proof! { [sort] fn cut_through_2_1() { cut_through_case::<2, 1>(); } }
proof! { [sort] fn cut_through_3_3() { cut_through_case::<3, 3>(); } }

proof! {
	[sort] fn cut_through_err_iff_duplicate_2_2() {
		// Err(CutThrough) exactly when a duplicate survives
		let a: [u8; 2] = nd::any();
		let o: [u8; 2] = nd::any();
		let mut ins = [w(a[0]), w(a[1])];
		let mut outs = [w(o[0]), w(o[1])];
		let dup_in = a[0] == a[1] && count(&outs, a[0]) == 0;
		let dup_out = o[0] == o[1] && count(&ins, o[0]) == 0;
		let r = transaction::cut_through(&mut ins[..], &mut outs[..]);
		check!(r.is_err() == (dup_in || dup_out), "refused iff a duplicate input or output survives cut-through");
		cover!(r.is_err(), "refused");
	}
}

#[cfg(kani)]
mod agg {
	use super::*;
	use crate::secp_model as m;
	use grin_core::core::transaction::{aggregate, deaggregate, CommitWrapper, FeeFields, KernelFeatures};
	use grin_core::core::{Inputs, Transaction, TxKernel};
	use grin_keychain::BlindingFactor;
	use grin_util::secp::Signature;

	fn fee_fields(fee: u64) -> FeeFields {
		let b = fee.to_be_bytes();
		grin_core::ser::deserialize_default(&mut &b[..]).unwrap()
	}
	/// a transaction with one input and one kernel (no outputs: 675-byte range proofs are opaque
	/// to aggregation and only slow the query down), symbolic commitment / excess / fee / offset
	pub fn any_tx() -> (Transaction, Commitment, Commitment, u16) {
		let (v, r): (u16, u16) = (nd::any(), nd::any());
		nd::assume(v != 0 || r != 0);
		let input = m::pack(v, r);
		let (kv, kr): (u16, u16) = (nd::any(), nd::any());
		nd::assume(kv != 0 || kr != 0);
		let excess = m::pack(kv, kr);
		let fee: u64 = nd::any();
		nd::assume(fee >= 1 && fee < (1 << 40));
		let off: u16 = nd::any();
		let s = [1u8; 64];
		let kernel = TxKernel { features: KernelFeatures::Plain { fee: fee_fields(fee) }, excess, excess_sig: Signature::from_raw_data(&s).unwrap() };
		let tx = Transaction::new(Inputs::CommitOnly(vec![CommitWrapper::from(input)]), &[], &[kernel])
			.with_offset(BlindingFactor::from_secret_key(m::key_of(off)));
		(tx, input, excess, off)
	}
	pub fn has_input(tx: &Transaction, c: &Commitment) -> bool {
		let ins: Vec<CommitWrapper> = tx.inputs().into();
		let mut i = 0;
		let mut f = false;
		while i < ins.len() {
			if ins[i].commitment() == *c {
				f = true;
			}
			i += 1;
		}
		core::mem::forget(ins);
		f
	}
	pub fn has_kernel(tx: &Transaction, c: &Commitment) -> bool {
		let ks = tx.kernels();
		let mut i = 0;
		let mut f = false;
		while i < ks.len() {
			if ks[i].excess == *c {
				f = true;
			}
			i += 1;
		}
		f
	}
	pub fn offset_of(tx: &Transaction) -> u16 {
		let b = tx.offset.as_ref();
		b[0] as u16 | (b[1] as u16) << 8
	}
}

/// model of committed::sum_kernel_offsets over the E7 scalar group: the real function (an
/// iterator chain around blind_sum) is decided on its own by c01::kernel_offset_sum
#[cfg(kani)]
pub fn sum_kernel_offsets_model(positive: Vec<grin_keychain::BlindingFactor>, negative: Vec<grin_keychain::BlindingFactor>) -> Result<grin_keychain::BlindingFactor, grin_core::core::committed::Error> {
	let mut r = 0u16;
	let mut i = 0;
	while i < positive.len() {
		let b = positive[i].as_ref();
		r = r.wrapping_add(b[0] as u16 | (b[1] as u16) << 8);
		i += 1;
	}
	i = 0;
	while i < negative.len() {
		let b = negative[i].as_ref();
		r = r.wrapping_sub(b[0] as u16 | (b[1] as u16) << 8);
		i += 1;
	}
	core::mem::forget(positive);
	core::mem::forget(negative);
	Ok(grin_keychain::BlindingFactor::from_secret_key(crate::secp_model::key_of(r)))
}

#[cfg(kani)]
proof! {
	[secp, hash_mix, sort]
	#[cfg_attr(kani, kani::stub(grin_core::core::committed::sum_kernel_offsets, sum_kernel_offsets_model))]
	fn aggregate_two_independent() {
		// aggregate of two transactions that do not spend each other, given in either order:
		// kernels are the union (sorted by hash), inputs the union, no outputs appear, the offset
		// is the sum of the offsets (model scalar group) - so the result does not depend on the
		// order of the operands
		use agg::*;
		use grin_core::core::hash::Hashed;
		use grin_core::core::transaction::aggregate;
		let (a, ia, ka, oa) = any_tx();
		let (b, ib, kb, ob) = any_tx();
		nd::assume(ia != ib && ka != kb);
		nd::assume(a.kernels()[0].hash() != b.kernels()[0].hash());
		let swap: bool = nd::any();
		let txs = if swap { [b, a] } else { [a, b] };
		let r = aggregate(&txs);
		check!(r.is_ok(), "two independent transactions aggregate");
		let ab = r.unwrap();
		check!(ab.kernels().len() == 2 && has_kernel(&ab, &ka) && has_kernel(&ab, &kb), "kernels are the union");
		check!(ab.kernels()[0].hash() < ab.kernels()[1].hash(), "kernels are sorted: the result does not depend on operand order");
		check!(ab.inputs().len() == 2 && has_input(&ab, &ia) && has_input(&ab, &ib), "inputs are the union");
		check!(ab.outputs().is_empty(), "no outputs appear");
		check!(offset_of(&ab) == oa.wrapping_add(ob), "offset is the sum of the offsets");
		cover!(oa != 0 && ob != 0 && oa.wrapping_add(ob) == 0, "offsets cancel");
		cover!(swap, "operands swapped");
		core::mem::forget(ab);
		core::mem::forget(txs);
	}
}

#[cfg(kani)]
proof! {
	[secp, hash_mix, sort] fn deaggregate_known_subset_kernel_only() {
		// deaggregate(mk, [t]) where mk carries the kernels of t and of one other transaction
		// (kernel-only transactions: inputs and outputs go through the same cut-through that
		// c12::cut_through_* decide): the remainder holds exactly the other kernel and its offset
		// is mk's offset minus t's (model scalar group) - also when either offset is zero
		use agg::*;
		use crate::secp_model as m;
		use grin_core::core::hash::Hashed;
		use grin_core::core::transaction::{deaggregate, FeeFields, KernelFeatures};
		use grin_core::core::{Inputs, Transaction, TransactionBody, TxKernel};
		use grin_keychain::BlindingFactor;
		use grin_util::secp::Signature;
		let kernel = |v: u16| {
			let fb = 7u64.to_be_bytes();
			let fee: FeeFields = grin_core::ser::deserialize_default(&mut &fb[..]).unwrap();
			TxKernel { features: KernelFeatures::Plain { fee }, excess: m::pack(v, 1), excess_sig: Signature::from_raw_data(&[1u8; 64]).unwrap() }
		};
		let v1: u16 = nd::any();
		let v2: u16 = nd::any();
		nd::assume(v1 != v2);
		let k1 = kernel(v1);
		let k2 = kernel(v2);
		// the (non-injective) model hash must not identify the two kernels: real hashes differ
		nd::assume(k1.hash() != k2.hash());
		let om: u16 = nd::any();
		let o2: u16 = nd::any();
		let swap: bool = nd::any();
		let ks = if swap { vec![k2, k1] } else { vec![k1, k2] };
		let mk = Transaction { offset: BlindingFactor::from_secret_key(m::key_of(om)), body: TransactionBody { inputs: Inputs::default(), outputs: vec![], kernels: ks } };
		let t = Transaction { offset: BlindingFactor::from_secret_key(m::key_of(o2)), body: TransactionBody { inputs: Inputs::default(), outputs: vec![], kernels: vec![k2] } };
		let r = deaggregate(mk, &[t]);
		check!(r.is_ok(), "a known subset de-aggregates");
		let rem = r.unwrap();
		check!(rem.kernels().len() == 1 && rem.kernels()[0].excess == k1.excess, "the remainder holds exactly the other kernel");
		check!(rem.inputs().len() == 0 && rem.outputs().is_empty(), "nothing else appears");
		check!(offset_of(&rem) == om.wrapping_sub(o2), "remainder offset = aggregate offset - known offset");
		cover!(o2 == 0 && om != 0, "the known transaction has a zero offset");
		cover!(om == 0 && o2 != 0, "the aggregate has a zero offset");
		core::mem::forget(rem);
	}
}

const RULE_SHAPE: u64 = match option_env!("VH_SHAPE") { Some(s) => (s.as_bytes()[0] - b'0') as u64, None => 0 };

proof! {
	[hash_mix, sort, zeroize] fn body_read_time_rules() {
		// TransactionBody::validate_read (what runs on every decoded transaction / block body) on
		// a body of 1 input, 1 output and 2 kernels: accepted exactly when the kernels are strictly
		// ascending by hash, the input does not spend the body's own output (no cut-through left
		// inside one body) and - with the NRD feature on - two NRD kernels do not share an excess;
		// each refusal carries its own error
		use grin_core::core::hash::Hashed;
		use grin_core::core::transaction::{self, CommitWrapper, FeeFields, KernelFeatures, NRDRelativeHeight, OutputFeatures, Weighting};
		use grin_core::core::{Inputs, Output, TransactionBody, TxKernel};
		use grin_util::secp::pedersen::{Commitment, RangeProof};
		use grin_util::secp::Signature;
		env::set_chain_type(grin_core::global::ChainTypes::Mainnet);
		let nrd_on: bool = nd::any();
		env::set_nrd_enabled(nrd_on);
		let commit = |a: u8, b: u8| {
			let mut c = [0u8; 33];
			c[0] = 8;
			c[1] = a;
			c[2] = b;
			Commitment(c)
		};
		let ci = commit(nd::any(), 1);
		let co = commit(nd::any(), 1);
		let fee: FeeFields = {
			let fb = 7u64.to_be_bytes();
			grin_core::ser::deserialize_default(&mut &fb[..]).unwrap()
		};
		let kern = |nrd: bool, e: u8| TxKernel {
			features: if nrd { KernelFeatures::NoRecentDuplicate { fee, relative_height: NRDRelativeHeight::new(10).unwrap() } } else { KernelFeatures::Plain { fee } },
			excess: commit(e, 2),
			excess_sig: Signature::from_raw_data(&[1u8; 64]).unwrap(),
		};
		let (n0, n1): (bool, bool) = (nd::any(), nd::any());
		let (e0, e1): (u8, u8) = (nd::any(), nd::any());
		let k0 = kern(n0, e0);
		let k1 = kern(n1, e1);
		let (h0, h1) = (k0.hash(), k1.hash());
		// shape per query (VH_SHAPE): 0 = 1 input / 1 output / 1 kernel (the cut-through rule),
		// 1 = no inputs / no outputs / 2 kernels (ordering and the NRD rule); both at once did not
		// finish in 660 s
		let body = if RULE_SHAPE == 0 {
			TransactionBody {
				inputs: Inputs::CommitOnly(vec![CommitWrapper::from(ci)]),
				outputs: vec![Output::new(OutputFeatures::Plain, co, RangeProof { proof: [0u8; 675], plen: 0 })],
				kernels: vec![k0],
			}
		} else {
			TransactionBody { inputs: Inputs::default(), outputs: vec![], kernels: vec![k0, k1] }
		};
		let r = body.validate_read(Weighting::NoLimit);
		let nrd_dup = RULE_SHAPE == 1 && nrd_on && n0 && n1 && e0 == e1;
		let sorted = RULE_SHAPE == 0 || h0 < h1;
		let cut = RULE_SHAPE == 0 && ci.0 == co.0;
		check!(r.is_ok() == (!nrd_dup && sorted && !cut), "accepted exactly when kernels ascend strictly, no own output is spent and no NRD excess repeats");
		if nrd_dup {
			check!(matches!(r, Err(transaction::Error::InvalidNRDRelativeHeight)), "a repeated NRD excess is refused first");
		} else if !sorted {
			check!(matches!(r, Err(transaction::Error::Serialization(_))), "unsorted or duplicate kernels are a serialization error");
		} else if cut {
			check!(matches!(r, Err(transaction::Error::CutThrough)), "an input spending the body's own output is CutThrough");
		}
		cover!(r.is_ok(), "accepted");
		cover!(r.is_err(), "refused");
		core::mem::forget(r);
		core::mem::forget(body);
	}
}

pub const HARNESSES: &[(&str, fn())] = &[
	("c12::cut_through_2_2", cut_through_2_2),
	("c12::cut_through_1_2", cut_through_1_2),
	("c12::cut_through_2_1", cut_through_2_1),
	("c12::cut_through_3_3", cut_through_3_3),
	("c12::cut_through_err_iff_duplicate_2_2", cut_through_err_iff_duplicate_2_2),
	("c12::body_read_time_rules", body_read_time_rules),
];
