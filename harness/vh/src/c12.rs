//! C12 — cut-through removes exactly the matched spend pairs (generic algorithm).
base_uses!();
use crate::{env, nd};
use grin_core::core::transaction::{self, Error};
use grin_util::secp::pedersen::Commitment;
use std::cmp::Ordering;

/// Harness element type: a commitment that varies in one byte, ordered by that byte.
/// `cut_through` is generic over `AsRef<Commitment> + Ord`; grin's instantiations
/// (CommitWrapper / Output, ordered by *hash*) differ only in which total order the final
/// `sort_unstable` uses, not in the matching logic.
#[derive(Clone, Copy, PartialEq, Eq)]
pub struct W(Commitment);
impl AsRef<Commitment> for W {
	fn as_ref(&self) -> &Commitment {
		&self.0
	}
}
impl PartialOrd for W {
	fn partial_cmp(&self, o: &Self) -> Option<Ordering> {
		Some(self.cmp(o))
	}
}
impl Ord for W {
	fn cmp(&self, o: &Self) -> Ordering {
		(self.0).0[0].cmp(&(o.0).0[0])
	}
}
fn w(b: u8) -> W {
	let mut c = [0u8; 33];
	c[0] = b;
	W(Commitment(c))
}
fn key(x: &W) -> u8 {
	(x.0).0[0]
}
fn count(v: &[W], b: u8) -> usize {
	let mut n = 0;
	let mut i = 0;
	while i < v.len() {
		if key(&v[i]) == b {
			n += 1;
		}
		i += 1;
	}
	n
}
fn sorted(v: &[W]) -> bool {
	let mut i = 1;
	while i < v.len() {
		if key(&v[i - 1]) > key(&v[i]) {
			return false;
		}
		i += 1;
	}
	true
}

fn cut_through_case<const NI: usize, const NO: usize>() {
	let mut ins = [w(0); NI];
	let mut outs = [w(0); NO];
	let mut i = 0;
	while i < NI {
		ins[i] = w(nd::any());
		i += 1;
	}
	i = 0;
	while i < NO {
		outs[i] = w(nd::any());
		i += 1;
	}
	let ins0 = ins;
	let outs0 = outs;
	// probe value: the multiset equations are checked for an arbitrary commitment
	let b: u8 = nd::any();
	let ci = count(&ins0, b);
	let co = count(&outs0, b);
	let m = if ci < co { ci } else { co };
	let r = transaction::cut_through(&mut ins[..], &mut outs[..]);
	match r {
		Ok((ri, ro, ci_cut, co_cut)) => {
			check!(count(ri, b) == ci - m, "remaining inputs = inputs minus matched pairs");
			check!(count(ro, b) == co - m, "remaining outputs = outputs minus matched pairs");
			check!(count(ci_cut, b) == m && count(co_cut, b) == m, "cut slices hold exactly the matched pairs");
			check!(ri.len() + ci_cut.len() == NI && ro.len() + co_cut.len() == NO, "nothing lost, nothing invented");
			check!(sorted(ri) && sorted(ro) && sorted(ci_cut) && sorted(co_cut), "all four slices sorted");
			check!(ci - m <= 1 && co - m <= 1, "Ok only if no duplicate survives");
			cover!(m == 1, "one pair cut");
			cover!(ci_cut.len() == 2, "two pairs cut");
		}
		Err(e) => {
			check!(matches!(e, Error::CutThrough), "only the cut-through error");
			// some value survives twice on one side
			let d: u8 = nd::any();
			let di = count(&ins0, d);
			let dox = count(&outs0, d);
			let dm = if di < dox { di } else { dox };
			cover!(di - dm >= 2 || dox - dm >= 2, "a surviving duplicate exists");
		}
	}
}

proof! { [sort] fn cut_through_2_2() { cut_through_case::<2, 2>(); } }
proof! { [sort] fn cut_through_1_2() { cut_through_case::<1, 2>(); } }
proof! { [sort] fn cut_through_2_1() { cut_through_case::<2, 1>(); } }
proof! { [sort] fn cut_through_3_3() { cut_through_case::<3, 3>(); } }

proof! {
	[sort] fn cut_through_err_iff_duplicate_2_2() {
		// Err(CutThrough) exactly when a duplicate survives
		let a: [u8; 2] = nd::any();
		let o: [u8; 2] = nd::any();
		let mut ins = [w(a[0]), w(a[1])];
		let mut outs = [w(o[0]), w(o[1])];
		let dup_in = a[0] == a[1] && count(&outs, a[0]) == 0;
		let dup_out = o[0] == o[1] && count(&ins, o[0]) == 0;
		let r = transaction::cut_through(&mut ins[..], &mut outs[..]);
		check!(r.is_err() == (dup_in || dup_out), "refused iff a duplicate input or output survives cut-through");
		cover!(r.is_err(), "refused");
	}
}

pub const HARNESSES: &[(&str, fn())] = &[
	("c12::cut_through_2_2", cut_through_2_2),
	("c12::cut_through_1_2", cut_through_1_2),
	("c12::cut_through_2_1", cut_through_2_1),
	("c12::cut_through_3_3", cut_through_3_3),
	("c12::cut_through_err_iff_duplicate_2_2", cut_through_err_iff_duplicate_2_2),
];
